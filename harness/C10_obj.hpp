// C10 helper: the harness-supplied objective (the call monitor) and small dense linear algebra for the oracle.
#pragma once
#include <Bpp/Numeric/Function/Functions.h>
#include <Bpp/Numeric/AbstractParametrizable.h>
#include <Bpp/Numeric/Constraints.h>
#include <cmath>
#include <string>
#include <vector>
#include <memory>
#include <limits>

namespace c10 {

static const double UR = 1.1102230246251565e-16;  // unit roundoff 2^-53
static const double NaN = std::numeric_limits<double>::quiet_NaN();

// ------------------------------------------------------------------------------------------------ objective description
enum Kind { QUAD = 0, COSH = 1, QUART = 2, LSE = 3, LOGCOSH = 4 };

struct Spec {
  int kind = QUAD;
  int n = 1;
  std::vector<double> Q;   // n*n row-major, integer entries, symmetric positive definite (QUAD and QUART)
  std::vector<double> m;   // minimiser (dyadic lattice values)
  double c = 0;            // constant offset = minimum value of the quadratic
  std::string label;
  // derived (quadratics): eigenvalue range (Jacobi), max absolute row sum
  double lmin = 0, lmax = 0, A = 0;
  double q(int i, int j) const { return Q[(size_t)i * n + j]; }
};

// value. Quadratic: d_i = x_i - m_i; s = sum_ij Q_ij d_i d_j (row by row); f = c + s/2.
// Rounding bound used by the oracle: |fl(f) - f| <= gamma * (|c| + 1/2 sum_ij |Q_ij||d_i||d_j|), gamma = 1.01 (n^2+4) u.
inline double evalSpec(const Spec& s, const double* x) {
  int n = s.n;
  switch (s.kind) {
    case QUAD: {
      double d[8]; for (int i = 0; i < n; ++i) d[i] = x[i] - s.m[i];
      double acc = 0;
      for (int i = 0; i < n; ++i) { double r = 0; for (int j = 0; j < n; ++j) r += s.q(i, j) * d[j]; acc += d[i] * r; }
      return s.c + 0.5 * acc;
    }
    case COSH: {   // sum_i cosh(a_i (x_i - m_i)),  a_i = 1, 1/2, 1, 1/2 ...   minimum n at m
      double acc = 0; for (int i = 0; i < n; ++i) { double a = (i % 2) ? 0.5 : 1.0; acc += std::cosh(a * (x[i] - s.m[i])); }
      return acc;
    }
    case QUART: {  // sum_i (x_i - m_i)^4 + 1/2 d'Qd + c
      double d[8]; for (int i = 0; i < n; ++i) d[i] = x[i] - s.m[i];
      double acc = 0;
      for (int i = 0; i < n; ++i) { double r = 0; for (int j = 0; j < n; ++j) r += s.q(i, j) * d[j]; acc += d[i] * r; }
      double q4 = 0; for (int i = 0; i < n; ++i) q4 += d[i] * d[i] * d[i] * d[i];
      return s.c + 0.5 * acc + q4;
    }
    case LOGCOSH: {  // sum_i log cosh(2 (x_i - m_i)) + c: smooth, strictly convex, minimum c at m; its curvature 4 sech^2 vanishes away from m, so a
                     // raw Newton step from |x_i - m_i| >= 2.5 overshoots by orders of magnitude (the step-halving safeguards are exercised)
      double acc = 0; for (int i = 0; i < n; ++i) { double u = std::fabs(2 * (x[i] - s.m[i])); acc += u + std::log1p(std::exp(-2 * u)) - 0.6931471805599453; }
      return s.c + acc;
    }
    default: {     // LSE: log sum_i (exp(d_i) + exp(-d_i)): log-sum-exp of the 2n affine forms +-(x_i - m_i); minimum log(2n) at m
      double acc = 0; for (int i = 0; i < n; ++i) { double d = x[i] - s.m[i]; acc += std::exp(d) + std::exp(-d); }
      return std::log(acc);
    }
  }
}

inline double gradSpec(const Spec& s, const double* x, int i) {
  int n = s.n;
  switch (s.kind) {
    case QUAD: { double r = 0; for (int j = 0; j < n; ++j) r += s.q(i, j) * (x[j] - s.m[j]); return r; }
    case COSH: { double a = (i % 2) ? 0.5 : 1.0; return a * std::sinh(a * (x[i] - s.m[i])); }
    case QUART: { double r = 0; for (int j = 0; j < n; ++j) r += s.q(i, j) * (x[j] - s.m[j]); double d = x[i] - s.m[i]; return r + 4 * d * d * d; }
    case LOGCOSH: return 2 * std::tanh(2 * (x[i] - s.m[i]));
    default: { double acc = 0; for (int k = 0; k < n; ++k) { double d = x[k] - s.m[k]; acc += std::exp(d) + std::exp(-d); }
               double d = x[i] - s.m[i]; return (std::exp(d) - std::exp(-d)) / acc; }
  }
}

inline double hessSpec(const Spec& s, const double* x, int i, int j) {
  int n = s.n;
  switch (s.kind) {
    case QUAD: return s.q(i, j);
    case COSH: { if (i != j) return 0; double a = (i % 2) ? 0.5 : 1.0; return a * a * std::cosh(a * (x[i] - s.m[i])); }
    case QUART: { double d = x[i] - s.m[i]; return s.q(i, j) + (i == j ? 12 * d * d : 0); }
    case LOGCOSH: { if (i != j) return 0; double t = std::tanh(2 * (x[i] - s.m[i])); return 4 * (1 - t * t); }
    default: { double acc = 0; for (int k = 0; k < n; ++k) { double d = x[k] - s.m[k]; acc += std::exp(d) + std::exp(-d); }
               double di = x[i] - s.m[i], dj = x[j] - s.m[j];
               double gi = (std::exp(di) - std::exp(-di)) / acc, gj = (std::exp(dj) - std::exp(-dj)) / acc;
               return (i == j ? (std::exp(di) + std::exp(-di)) / acc : 0) - gi * gj; }
  }
}

// ------------------------------------------------------------------------------------------------ small linear algebra
// eigenvalues of a symmetric n x n matrix by cyclic Jacobi (n <= 8); returns (min, max)
inline void symEigRange(std::vector<double> a, int n, double& lo, double& hi) {
  for (int sweep = 0; sweep < 60; ++sweep) {
    double off = 0; for (int p = 0; p < n; ++p) for (int q = p + 1; q < n; ++q) off += a[p * n + q] * a[p * n + q];
    if (off < 1e-300) break;
    for (int p = 0; p < n; ++p) for (int q = p + 1; q < n; ++q) {
      double apq = a[p * n + q]; if (apq == 0) continue;
      double theta = (a[q * n + q] - a[p * n + p]) / (2 * apq);
      double t = (theta >= 0 ? 1.0 : -1.0) / (std::fabs(theta) + std::sqrt(theta * theta + 1));
      double cs = 1 / std::sqrt(t * t + 1), sn = t * cs;
      for (int k = 0; k < n; ++k) { double akp = a[k * n + p], akq = a[k * n + q]; a[k * n + p] = cs * akp - sn * akq; a[k * n + q] = sn * akp + cs * akq; }
      for (int k = 0; k < n; ++k) { double apk = a[p * n + k], aqk = a[q * n + k]; a[p * n + k] = cs * apk - sn * aqk; a[q * n + k] = sn * apk + cs * aqk; }
    }
  }
  lo = hi = a[0]; for (int i = 1; i < n; ++i) { lo = std::min(lo, a[i * n + i]); hi = std::max(hi, a[i * n + i]); }
}

inline void finishSpec(Spec& s) {
  if (s.kind == QUAD || s.kind == QUART) {
    symEigRange(s.Q, s.n, s.lmin, s.lmax);
    s.A = 0; for (int i = 0; i < s.n; ++i) { double r = 0; for (int j = 0; j < s.n; ++j) r += std::fabs(s.q(i, j)); s.A = std::max(s.A, r); }
  }
}

// ------------------------------------------------------------------------------------------------ the monitored objective
// Parameters x0..x(n-1), unconstrained inside the function: constraints live only on the list handed to Optimizer::init(),
// so an evaluation outside them is *recorded* by the monitor instead of being turned into an exception.
// Line mode (for the backtracking line search): one parameter "x" = lambda, evaluated at p0 + lambda * dir.
class Obj : public virtual bpp::SecondOrderDerivable, public bpp::AbstractParametrizable {
 public:
  Spec s;
  bool line = false; std::vector<double> p0, dir;
  bool d1 = true, d2 = true;
  double val = 0;
  std::vector<double> cur;         // current point in the space of s
  std::vector<double> pts;         // every point at which the objective was evaluated (np doubles each), capped
  size_t nEval = 0; bool recording = false; size_t cap = 400000;
  double maxAbs = 0;               // max |coordinate| over all evaluations (own parameter space)
  int np = 1;

  static std::string pname(int i) { return "x" + std::to_string(i); }

  Obj(const Spec& sp, const std::vector<double>& start) : bpp::AbstractParametrizable(""), s(sp), cur(sp.n), np(sp.n) {
    for (int i = 0; i < s.n; ++i) addParameter_(new bpp::Parameter(pname(i), start[(size_t)i]));
    refresh();
  }
  Obj(const Spec& sp, const std::vector<double>& p, const std::vector<double>& d, int) : bpp::AbstractParametrizable(""), s(sp), line(true), p0(p), dir(d), cur(sp.n), np(1) {
    addParameter_(new bpp::Parameter("x", 0.0));
    refresh();
  }
  Obj* clone() const override { return new Obj(*this); }

  void refresh() {
    if (line) { double l = getParameter_(0).getValue(); for (int i = 0; i < s.n; ++i) cur[(size_t)i] = p0[(size_t)i] + l * dir[(size_t)i]; }
    else for (int i = 0; i < s.n; ++i) cur[(size_t)i] = getParameter_((size_t)i).getValue();
    val = evalSpec(s, cur.data());
  }
  void setParameters(const bpp::ParameterList& pl) override { matchParametersValues(pl); }
  double getValue() const override { return val; }
  void fireParameterChanged(const bpp::ParameterList&) override {
    refresh();
    if (recording) {
      ++nEval;
      for (int i = 0; i < np; ++i) { double v = getParameter_((size_t)i).getValue(); maxAbs = std::max(maxAbs, std::fabs(v)); if (pts.size() < cap) pts.push_back(v); }
    }
  }
  void enableFirstOrderDerivatives(bool yn) override { d1 = yn; }
  bool enableFirstOrderDerivatives() const override { return d1; }
  void enableSecondOrderDerivatives(bool yn) override { d2 = yn; }
  bool enableSecondOrderDerivatives() const override { return d2; }
  int idx(const std::string& v) const { if (line) return 0; return std::atoi(v.c_str() + 1); }
  double getFirstOrderDerivative(const std::string& v) const override {
    if (line) { double r = 0; for (int i = 0; i < s.n; ++i) r += gradSpec(s, cur.data(), i) * dir[(size_t)i]; return r; }
    return gradSpec(s, cur.data(), idx(v));
  }
  double getSecondOrderDerivative(const std::string& v) const override {
    if (line) { double r = 0; for (int i = 0; i < s.n; ++i) for (int j = 0; j < s.n; ++j) r += dir[(size_t)i] * hessSpec(s, cur.data(), i, j) * dir[(size_t)j]; return r; }
    int i = idx(v); return hessSpec(s, cur.data(), i, i);
  }
  double getSecondOrderDerivative(const std::string& v1, const std::string& v2) const override {
    if (line) return getSecondOrderDerivative(v1);
    return hessSpec(s, cur.data(), idx(v1), idx(v2));
  }
};

}  // namespace c10
