// C19 — simplex parametrisations always yield a probability vector and invert exactly
// VF-VARIANT: san
// VF-RULE: E2 product spaces, every index executed. (1) theta-lattice: method x zero-allowing flag x dimension x every theta vector of the lattice {1e-9,1/4,1/2,3/4,1-1e-9}^(n-1) (n<=7), of {1e-13,1/2,1-1e-13}^(n-1) (n<=4), and for 8<=n<=33 every vector that deviates from one of three base vectors (theta==1/2, theta==1/4, theta_i=1/(n-i)) in at most D coordinates to any lattice value; each is pushed through all three update entry points, copied (constructor, clone, assignment) and mutated, and fed back through both probability entry points. (2) probability vectors: every composition of 8 into n positive parts (/8, n<=8) and 12 constructed families with entries down to 1e-9 for every n in 1..33, through the constructor, the frequency setter on a fresh and on a used object, plain and ordered variant. (3) injectivity: per method and n<=7 the images of the whole theta lattice are sorted and scanned for duplicates. (4) the two other users of the global-ratio coding that keep a copy of the vector next to the parameters: every operation history up to depth 4 (thorough 5) over 10 operations on a FullHmmTransitionMatrix (two caching readers, frequency setter with three matrices, two parameter update routes, copy, assignment from another matrix, namespace change; n=2,3) and over 9 operations on a MixtureOfDiscreteDistributions of constants (five parameter update routes incl. a zero theta, three namespaces, copy; n=2,3); after every operation the rows / weights the getters return are compared with the image of the parameters the object reports. (5) every history up to depth 3 (thorough 4) over 10 operations on one Simplex / OrderedSimplex object (method x zero-allowing x n=2..4): single-parameter and list updates (a foreign parameter first in the list), the frequency setter with two admissible vectors and two vectors it refuses (a zero entry, a sum of 1.1), aliasing one ratio to another, copy (the source is kept and must not change while the copy is worked on); after every operation, refused or not, the probabilities must be the image of the reported parameters (fresh object as reference) and the ordered values the tail sums of the probabilities. A case is non-trivial when n>=2.
// VF-BOUND: theta in a 5-value lattice instead of (0,1); full lattice only for n<=7 (quick n<=6), beyond that at most D deviating coordinates (quick: D=2 for n<=9 and n in 15..17, D=1 otherwise; thorough: D=2 for every n<=33 and D=3 for n in {8,9,16}); probability vectors from dyadic compositions (n<=8) and 12 families per dimension instead of the whole simplex; all dimensions 1..33 are covered for the families and the deviation lattice; the histories of (4) are bounded in depth (4 / 5), in dimension (2, 3) and in the values written (listed in the harness)
// VF-LEVEL: bounded-exhaustive check on the real classes: every listed method x dimension x lattice vector is executed, and every operation history up to the stated depth on a transition matrix, a mixture and a single simplex object (explicit enumeration of histories, each replayed on a fresh object, reference = image of the reported parameters); tolerances are forward-error bounds of the documented formulas evaluated in double, derived next to their use; nothing sampled
// VF-ASSUME: IEEE double arithmetic with round-to-nearest;; the parameters of a simplex are stored as doubles, so a probability vector is 'returned unchanged to rounding' when it is within the forward error of rounding the parameters (this scales with p_i/p_(i+1) for the local-ratio method);; behaviour between lattice points is not observed
// VF-TECHNIQUE: exhaustive enumeration of parameter / probability lattices and of bounded operation histories (refused calls included) on the real code; normalisation, round trip in both directions, path independence, copy independence, duplicate scan for injectivity
// VF-BUDGET_QUICK: 150
#include "vf.hpp"
#include <Bpp/Numeric/Prob/Simplex.h>
#include <Bpp/Numeric/Prob/MixtureOfDiscreteDistributions.h>
#include <Bpp/Numeric/Prob/ConstantDistribution.h>
#include <Bpp/Numeric/Hmm/FullHmmTransitionMatrix.h>
#include <Bpp/Numeric/Hmm/HmmStateAlphabet.h>
#include <Bpp/Numeric/AbstractParametrizable.h>
#include <Bpp/Numeric/Matrix/Matrix.h>
#include <Bpp/App/ApplicationTools.h>
#include <Bpp/Io/OutputStream.h>
#include <cmath>
#include <cfloat>
#include <algorithm>
using namespace bpp;
using vf::num; using vf::str; using vf::vstr;
typedef std::vector<double> Vd;

static const double EPS = DBL_EPSILON;
static const double LAT[5] = {0.5, 0.25, 0.75, 1e-9, 1 - 1e-9};     // simplest first
static const char* MN[4] = {"", "global-ratio", "local-ratio", "binary"};
static std::string line1(const std::string& s) { return s.substr(0, s.find('\n')); }

static long double sumL(const Vd& v) { long double s = 0; for (double x : v) s += x; return s; }
static double minOf(const Vd& v) { double m = 1; for (double x : v) m = std::min(m, x); return m; }
static std::string tname(int i) { return "theta" + str(i + 1); }

static Vd thetas(const Simplex& s) { Vd t; size_t k = s.dimension() ? s.dimension() - 1 : 0; for (size_t i = 0; i < k; ++i) t.push_back(s.getParameterValue(tname((int)i))); return t; }

// ---- audits -------------------------------------------------------------------------------------
// probability vector: finite, non-negative, sums to one.
// sum bound: every method ends with p_i that are products/quotients carrying <= (n+6) relative roundings of exact quantities that sum
// to exactly 1 (telescoping product, explicit normalisation, binary tree), so |sum-1| <= (n+6)u <= 8 n eps.
static bool auditProb(const Vd& p, size_t n, vf::Case& c, const std::string& sigp, const std::string& ctx) {
  bool ok = true;
  if (p.size() != n) { c.fail(sigp + "|size", ctx + ": " + str(p.size()) + " frequencies for dimension " + str(n)); return false; }
  for (size_t i = 0; i < n; ++i) if (!(p[i] >= 0) || !std::isfinite(p[i])) { c.fail(sigp + "|negative-or-nan", ctx + ": p[" + str(i) + "]=" + num(p[i])); ok = false; }
  long double s = sumL(p);
  if (!(fabsl(s - 1) <= 8 * n * EPS)) { c.fail(sigp + "|sum", ctx + ": sum-1 = " + num((double)(s - 1)) + " p=" + vstr(p)); ok = false; }
  return ok;
}
static void auditConstraints(const Simplex& s, bool allowNull, vf::Case& c, const std::string& ctx) {
  const ParameterList& pl = s.getParameters();
  size_t want = s.dimension() ? s.dimension() - 1 : 0;
  if (pl.size() != want) { c.fail("simplex|parameter-count", ctx + ": " + str(pl.size()) + " parameters for dimension " + str(s.dimension())); return; }
  for (size_t i = 0; i < pl.size(); ++i) {
    double t = pl[i].getValue();
    bool in = allowNull ? (t >= 0 && t <= 1) : (t > 0 && t < 1);
    if (!in) c.fail("simplex|parameter-outside-constraint", ctx + ": " + pl[i].getName() + "=" + num(t));
  }
}

// ---- tolerances for p -> theta -> p (derived; u = eps/2, sigma = |1 - sum of the given vector|) ----------------------------
// global ratio: theta_i = p_i/y_i with y_i the running remainder; in p'_i = theta_i * prod_{j<i}(1-theta_j) the remainder cancels, what is
//   left is (a) <= 3n relative roundings, (b) rounding of theta_j to double seen through 1-theta_j: absolute u*p_j*(p_i/y_(j+1)) <= u*p_j,
//   summed <= u, (c) the last entry absorbs sigma + n u (the running remainder's own rounding).  => |p'_i-p_i| <= (4n+2)u + sigma <= 16 n eps + 2 sigma
// binary: theta = i1/(i0+i1) with subset sums ((terms) u relative each, 4n over all levels), 1-theta seen through the rounding of theta:
//   absolute <= (mass of the 1-branch) * (2 terms + 1) u per level.  => |p'_j-p_j| <= (8n+12)u + sigma <= 16 n eps + 2 sigma
// local ratio: alpha_i = (1-theta_i)/theta_i reproduces p_(i+1)/p_i up to (5u + 2u p_i/p_(i+1)) relative (rounding theta_i to double costs
//   u*theta/(1-theta) = u p_i/p_(i+1) relative on 1-theta); the products accumulate this; normalisation adds (n+2)u and sigma.
//   => |p'_k-p_k| <= p_k * (2*sum_i(5u + 2u p_i/p_(i+1)) + (n+2)u + sigma) <= p_k * (8 n eps + 4 eps sum_i p_i/p_(i+1) + 2 sigma)
static Vd tolP(int m, const Vd& p) {
  size_t n = p.size(); double sigma = (double)fabsl(sumL(p) - 1);
  Vd t(n);
  if (m == 2) {
    long double r = 0; for (size_t i = 0; i + 1 < n; ++i) r += (long double)p[i] / p[i + 1];
    double rel = 8 * n * EPS + 4 * EPS * (double)r + 2 * sigma;
    for (size_t k = 0; k < n; ++k) t[k] = rel * p[k];
  } else for (size_t k = 0; k < n; ++k) t[k] = 16 * n * EPS + 2 * sigma;
  return t;
}
// tolerance for theta -> p -> theta (p produced by the object itself, min p >= 1e-9):
// global ratio: the running remainder y_i = 1 - sum_{j<i} p_j carries n u + |1-sum p| <= 4 n u absolute, relative to the true remainder
//   >= p_i >= min p; plus 6n relative roundings  => |theta'-theta| <= 10 n u / min p <= 16 n eps / min p
// local ratio / binary: theta' is a ratio of (sums of) the p, which reproduce the exact products up to (4 log2(n) + n) relative roundings
//   => |theta'-theta| <= 64 n eps
static double tolTheta(int m, size_t n, double minp) { return m == 1 ? 16 * n * EPS / minp : 64 * n * EPS; }
// how much of a tolerance the worst entry used (evidence only: shows that the bounds are neither vacuous nor marginal)
static void margin(vf::Case& c, const std::string& what, double worstRatio) {
  c.tag(what + (worstRatio <= 1.0 / 64 ? ":err<=tol/64" : worstRatio <= 1.0 / 8 ? ":err<=tol/8" : worstRatio <= 1 ? ":err<=tol" : ":err>tol"));
}

// ---- helpers to drive the object -----------------------------------------------------------------------------------
static void setThetas(Simplex& s, const Vd& th, int path, vf::Case& c) {
  size_t k = th.size();
  if (path == 1) { c.site("Simplex::setParameterValue"); for (size_t i = 0; i < k; ++i) s.setParameterValue(tname((int)i), th[i]); return; }
  ParameterList pl = s.getParameters();
  for (size_t i = 0; i < k; ++i) pl[i].setValue(th[i]);
  if (path == 0) { c.site("Simplex::matchParametersValues"); s.matchParametersValues(pl); }
  else { c.site("Simplex::setAllParametersValues"); s.setAllParametersValues(pl); }
}

// everything that is checked for one admissible theta vector
static void thetaCase(int m, bool allowNull, const Vd& th, bool full, vf::Case& c, bool sample) {
  size_t n = th.size() + 1;
  std::string ctx = std::string(MN[m]) + (allowNull ? " allowNull" : "") + " n=" + str(n) + " theta=" + vstr(th);
  try {
    c.site("Simplex(dim) ctor");
    Simplex S(n, (unsigned short)m, allowNull);
    if (!auditProb(S.getFrequencies(), n, c, "simplex|initial", ctx + " (before any update)")) return;
    auditConstraints(S, allowNull, c, ctx + " (before any update)");
    setThetas(S, th, 0, c);
    Vd p = S.getFrequencies();
    if (!auditProb(p, n, c, "simplex|theta-to-p", ctx)) return;
    for (size_t i = 0; i < n; ++i) if (S.prob(i) != p[i]) c.fail("simplex|prob-vs-getFrequencies", ctx);
    if (thetas(S) != th) c.fail("simplex|parameters-not-stored", ctx + ": holds " + vstr(thetas(S)));
    auditConstraints(S, allowNull, c, ctx);
    if (full) {
      // p is a function of theta: the same vector through the other entry points gives the same frequencies
      for (int path = 1; path <= 2; ++path) {
        Simplex B(n, (unsigned short)m, allowNull);
        setThetas(B, th, path, c);
        if (B.getFrequencies() != p) c.fail("simplex|p-depends-on-update-path", ctx + ": matchParametersValues gives " + vstr(p) + ", " + (path == 1 ? "setParameterValue one by one" : "setAllParametersValues") + " gives " + vstr(B.getFrequencies()));
      }
      // and it does not depend on what the object held before
      {
        Simplex B(n, (unsigned short)m, allowNull);
        Vd other(th.size()); for (size_t i = 0; i < th.size(); ++i) other[i] = LAT[(i + 1) % 5];
        setThetas(B, other, 0, c); setThetas(B, th, 0, c);
        if (B.getFrequencies() != p) c.fail("simplex|p-depends-on-history", ctx + ": fresh " + vstr(p) + ", after another vector " + vstr(B.getFrequencies()));
      }
      // copies are independent
      if (n >= 2) {
        c.site("Simplex copy");
        Simplex C1(S); std::unique_ptr<Simplex> C2(S.clone()); Simplex C3(n == 2 ? 3 : 2, (unsigned short)m, allowNull); C3 = S;
        Simplex* cs[3] = {&C1, C2.get(), &C3}; const char* cn[3] = {"copy-constructed", "clone", "assigned"};
        double nv = th[0] == 0.25 ? 0.75 : 0.25;
        Vd th2 = th; th2[0] = nv;
        Simplex F(n, (unsigned short)m, allowNull); setThetas(F, th2, 0, c); Vd p2 = F.getFrequencies();
        for (int k = 0; k < 3; ++k) {
          if (cs[k]->getFrequencies() != p || thetas(*cs[k]) != th || cs[k]->dimension() != n) { c.fail("simplex|copy-differs-from-source", ctx + ": " + cn[k] + " holds " + vstr(cs[k]->getFrequencies())); continue; }
          c.site("Simplex::setParameterValue (copy)");
          cs[k]->setParameterValue("theta1", nv);
          if (S.getFrequencies() != p || thetas(S) != th) { c.fail("simplex|copy-not-independent", ctx + ": changing theta1 of the " + cn[k] + " copy changed the source to " + vstr(S.getFrequencies())); return; }
          if (cs[k]->getFrequencies() != p2) c.fail("simplex|copy-not-functional", ctx + ": " + cn[k] + " copy after theta1=" + num(nv) + " holds " + vstr(cs[k]->getFrequencies()) + ", a fresh object " + vstr(p2));
        }
        c.site("Simplex::setParameterValue (source)");
        S.setParameterValue("theta1", th[0] == 0.5 ? 0.75 : 0.5);
        for (int k = 0; k < 3; ++k) if (cs[k]->getFrequencies() != p2) c.fail("simplex|copy-not-independent", ctx + ": changing the source changed the " + cn[k] + " copy");
        S.setParameterValue("theta1", th[0]);
        if (S.getFrequencies() != p) c.fail("simplex|p-depends-on-history", ctx + ": restoring theta1 does not restore the frequencies");
      }
    }
    // theta -> p -> theta (only when the image is an admissible input: entries >= 1e-9)
    double mp = minOf(p);
    if (mp >= 1e-9) {
      double tt = tolTheta(m, n, mp);
      c.site("Simplex(probas) ctor");
      Simplex U(p, (unsigned short)m, allowNull);
      Vd tu = thetas(U);
      { double w = 0; for (size_t i = 0; i < th.size(); ++i) w = std::max(w, std::fabs(tu[i] - th[i]) / tt); if (n >= 2) margin(c, std::string("theta-roundtrip:") + MN[m], w); }
      for (size_t i = 0; i < th.size(); ++i) if (!(std::fabs(tu[i] - th[i]) <= tt)) { c.fail("simplex|theta-roundtrip", ctx + ": constructor from p=" + vstr(p) + " gives theta=" + vstr(tu) + " (tol " + num(tt) + ")"); break; }
      if (U.getFrequencies() != p) c.fail("simplex|ctor-does-not-return-given-vector", ctx);
      auditConstraints(U, allowNull, c, ctx + " (constructed from its image)");
      c.site("Simplex::setFrequencies");
      Simplex V(n, (unsigned short)m, allowNull);
      V.setFrequencies(p);
      Vd tv = thetas(V);
      if (tv != tu) c.fail("simplex|ctor-vs-setter", ctx + ": constructor gives theta=" + vstr(tu) + ", setFrequencies " + vstr(tv));
      Vd pv = V.getFrequencies(), tp = tolP(m, p);
      for (size_t i = 0; i < n; ++i) if (!(std::fabs(pv[i] - p[i]) <= tp[i])) { c.fail(std::string("simplex|p-roundtrip|") + MN[m], ctx + ": setFrequencies(" + vstr(p) + ") then getFrequencies gives " + vstr(pv)); break; }
      c.tag("theta-roundtrip-judged");
    } else c.tag("theta-image-below-1e-9(roundtrip-not-judged)");
    if (n >= 2) c.nontrivial();
    c.tag(std::string(MN[m]) + "-theta");
    if (sample) c.sample(ctx + " -> p=" + vstr(p));
  } catch (bpp::Exception& e) { c.fail(std::string("simplex|exception|") + MN[m], ctx + ": " + line1(e.what())); }
}

// ---- deviation-bounded lattice for large n --------------------------------------------------------------------------
// index -> theta vector with at most D coordinates deviating from the base value; enumeration order: 0 deviations, 1, 2, ...
static uint64_t choose(uint64_t n, uint64_t k) { if (k > n) return 0; uint64_t r = 1; for (uint64_t i = 1; i <= k; ++i) r = r * (n - k + i) / i; return r; }
static uint64_t devCount(int k, int D) { uint64_t t = 0, pw = 1; for (int d = 0; d <= D; ++d) { t += choose(k, d) * pw; pw *= 4; } return t; }
// bases: 0: theta == 1/2 (uniform image for the local-ratio coding, near-uniform for the binary one), 1: theta == 1/4,
//        2: theta_i = 1/(n-i) (uniform image for the global-ratio coding; keeps the image above 1e-9 for large n)
static Vd devVector(int k, int D, int base, uint64_t idx) {
  double bv = base == 1 ? 0.25 : 0.5;
  std::vector<double> alt; for (int j = 0; j < 5; ++j) if (LAT[j] != bv) alt.push_back(LAT[j]);
  Vd th(k, bv); uint64_t pw = 1;
  if (base == 2) for (int i = 0; i < k; ++i) th[i] = 1.0 / (k + 1 - i);
  for (int d = 0; d <= D; ++d, pw *= 4) {
    uint64_t cnt = choose(k, d) * pw;
    if (idx >= cnt) { idx -= cnt; continue; }
    uint64_t comb = idx / pw, vals = idx % pw;
    // unrank the d-subset (lexicographic)
    int pos = 0;
    for (int j = 0; j < d; ++j) {
      for (;; ++pos) { uint64_t rest = choose(k - pos - 1, d - j - 1); if (comb < rest) break; comb -= rest; }
      th[pos] = alt[vals % 4]; vals /= 4; ++pos;
    }
    return th;
  }
  return th;
}

// ---- probability families ---------------------------------------------------------------------------------------
static Vd normalised(const std::vector<long double>& w) { long double s = 0; for (auto x : w) s += x; Vd p; for (auto x : w) p.push_back((double)(x / s)); return p; }
static const int NFAM = 12;
static const char* FAMN[NFAM] = {"uniform", "spike-first", "spike-middle", "spike-last", "ramp-up", "ramp-down", "geometric-up", "geometric-down", "alternating-even-big", "alternating-odd-big", "half-small-half-big", "half-big-half-small"};
static Vd family(int fam, int n) {
  const long double d = 1e-9L;
  std::vector<long double> w(n, 1);
  switch (fam) {
    case 0: break;
    case 1: case 2: case 3: { int k = fam == 1 ? 0 : fam == 2 ? n / 2 : n - 1; for (int i = 0; i < n; ++i) w[i] = d; w[k] = 1 - (n - 1) * d; break; }
    case 4: for (int i = 0; i < n; ++i) w[i] = i + 1; break;
    case 5: for (int i = 0; i < n; ++i) w[i] = n - i; break;
    case 6: case 7: { long double r = n > 1 ? powl(1e8L, 1.0L / (n - 1)) : 1; long double x = 1; for (int i = 0; i < n; ++i) { w[fam == 6 ? i : n - 1 - i] = x; x *= r; } break; }   // smallest/largest = 1e-8, so the smallest entry stays above 1e-9 after normalisation
    case 8: case 9: { int nb = 0; for (int i = 0; i < n; ++i) if ((i % 2 == 0) == (fam == 8)) ++nb; if (nb == 0) break; for (int i = 0; i < n; ++i) w[i] = ((i % 2 == 0) == (fam == 8)) ? (1 - (n - nb) * d) / nb : d; break; }
    case 10: case 11: { int h = n / 2; if (h == 0) break; for (int i = 0; i < n; ++i) { bool small = (fam == 10) ? i < h : i >= n - h; w[i] = small ? d : (1 - h * d) / (n - h); } break; }
  }
  return normalised(w);
}
// compositions of 8 into n positive parts, by index (lexicographic); count = C(7, n-1)
static Vd composition(int n, uint64_t idx) {
  // choose n-1 cut points among 7 gaps
  Vd p; int prev = 0, pos = 0; uint64_t comb = idx;
  for (int j = 0; j < n - 1; ++j) {
    for (;; ++pos) { uint64_t rest = choose(7 - pos - 1, n - 1 - j - 1); if (comb < rest) break; comb -= rest; }
    p.push_back((pos + 1 - prev) / 8.0); prev = pos + 1; ++pos;
  }
  p.push_back((8 - prev) / 8.0);
  return p;
}

// everything that is checked for one admissible probability vector
static void probCase(int m, bool allowNull, const Vd& p, const std::string& what, vf::Case& c, bool sample) {
  size_t n = p.size();
  std::string ctx = std::string(MN[m]) + (allowNull ? " allowNull" : "") + " n=" + str(n) + " " + what + " p=" + vstr(p);
  Vd tp = tolP(m, p);
  double worst = 0;
  auto cmp = [&](const Vd& got, const std::string& how) {
    if (got.size() != n) { c.fail("simplex|p-roundtrip|size", ctx + ": " + how); return; }
    for (size_t i = 0; i < n; ++i) if (tp[i] > 0) worst = std::max(worst, std::fabs(got[i] - p[i]) / tp[i]);
    for (size_t i = 0; i < n; ++i) if (!(std::fabs(got[i] - p[i]) <= tp[i])) { c.fail(std::string("simplex|p-roundtrip|") + MN[m], ctx + ": " + how + " returns " + vstr(got) + " (entry " + str(i) + " off by " + num(got[i] - p[i]) + ", tol " + num(tp[i]) + ")"); return; }
  };
  try {
    c.site("Simplex(probas) ctor");
    Simplex U(p, (unsigned short)m, allowNull);
    cmp(U.getFrequencies(), "constructor then getFrequencies");
    auditConstraints(U, allowNull, c, ctx + " (constructor)");
    if (U.dimension() != n) c.fail("simplex|dimension", ctx);
    // the parameters the constructor chose reproduce the vector when they are notified again
    if (n >= 2) {
      c.site("Simplex::matchParametersValues");
      Vd tu = thetas(U);
      Simplex W(n, (unsigned short)m, allowNull); setThetas(W, tu, 0, c);
      cmp(W.getFrequencies(), "constructor parameters set on a fresh object, then getFrequencies");
      auditProb(W.getFrequencies(), n, c, "simplex|p-to-theta-to-p", ctx);
      // perturb one parameter and restore it on the constructed object (forces a recomputation from the parameters)
      U.setParameterValue("theta1", tu[0] == 0.5 ? 0.25 : 0.5); U.setParameterValue("theta1", tu[0]);
      cmp(U.getFrequencies(), "constructor, theta1 changed and restored, then getFrequencies");
    }
    c.site("Simplex::setFrequencies");
    Simplex V(n, (unsigned short)m, allowNull);
    V.setFrequencies(p);
    cmp(V.getFrequencies(), "setFrequencies on a fresh object then getFrequencies");
    auditProb(V.getFrequencies(), n, c, "simplex|after-setFrequencies", ctx);
    auditConstraints(V, allowNull, c, ctx + " (setFrequencies)");
    // on an object that held something else
    Vd q(n); { long double s = 0; for (size_t i = 0; i < n; ++i) s += (i % 3) + 1; for (size_t i = 0; i < n; ++i) q[i] = (double)(((i % 3) + 1) / s); }
    Simplex X(q, (unsigned short)m, allowNull);
    X.setFrequencies(p);
    cmp(X.getFrequencies(), "setFrequencies on an object built from another vector, then getFrequencies");
    auditConstraints(X, allowNull, c, ctx + " (setFrequencies on used object)");
    // copy of it is independent
    if (n >= 2) {
      Simplex Y(X); Vd before = X.getFrequencies();
      Y.setFrequencies(q);
      if (X.getFrequencies() != before) c.fail("simplex|copy-not-independent", ctx + ": setFrequencies on a copy changed the source");
      X.setFrequencies(q);
      if (Y.getFrequencies() != X.getFrequencies()) c.fail("simplex|p-depends-on-history", ctx + ": same setFrequencies on source and copy disagree");
    }
    if (n >= 2) c.nontrivial();
    if (n >= 2) margin(c, std::string("p-roundtrip:") + MN[m], worst);
    c.tag(std::string(MN[m]) + "-prob");
    if (sample) c.sample(ctx + " -> theta=" + vstr(thetas(V)) + " -> " + vstr(V.getFrequencies()));
  } catch (bpp::Exception& e) { c.fail(std::string("simplex|exception|") + MN[m], ctx + ": " + line1(e.what())); }
}

// ordered variant: values v_1>=...>=v_n, p_i = i (v_i - v_(i+1))
static void orderedCase(int m, bool allowNull, const Vd& p, const std::string& what, vf::Case& c, bool sample) {
  size_t n = p.size();
  // reference values from the admissible probability vector p (long double, then rounded)
  Vd v(n); { long double x = 0; for (size_t i = n; i > 0; --i) { x += (long double)p[i - 1] / i; v[i - 1] = (double)x; } }
  std::string ctx = std::string("ordered ") + MN[m] + (allowNull ? " allowNull" : "") + " n=" + str(n) + " " + what + " values=" + vstr(v);
  // tolerance: setFrequencies forms p~_i = i (v_i - v_(i+1)) from the rounded v: absolute perturbation <= 2u i v_i <= 2u (i v_i <= sum v <= 1);
  // the simplex returns p' within tolP of p~ (sigma of p~ <= sigma of p + 2 n u); v'_i = sum_{j>=i} p'_j / j adds n u relative.
  Vd tp = tolP(m, p);
  Vd tv(n); { long double x = 0; for (size_t i = n; i > 0; --i) { x += (2.0L * tp[i - 1] + 4 * n * EPS) / i; tv[i - 1] = (double)x + 2 * n * EPS; } }
  auto judge = [&](const Vd& got, const std::string& how, bool roundtrip) {
    if (got.size() != n) { c.fail("ordered|size", ctx + ": " + how); return; }
    for (size_t i = 0; i + 1 < n; ++i) if (!(got[i] >= got[i + 1])) { c.fail("ordered|not-non-increasing", ctx + ": " + how + " returns " + vstr(got)); break; }
    for (size_t i = 0; i < n; ++i) if (!(got[i] >= 0)) { c.fail("ordered|negative", ctx + ": " + how + " returns " + vstr(got)); break; }
    long double s = sumL(got);
    // sum v' = sum_i p'_i (each p'_j/j counted j times): the simplex bound 8 n eps plus n roundings of the tail sums
    if (!(fabsl(s - 1) <= 16 * n * EPS)) c.fail("ordered|sum", ctx + ": " + how + " sums to 1+" + num((double)(s - 1)));
    if (roundtrip) for (size_t i = 0; i < n; ++i) if (!(std::fabs(got[i] - v[i]) <= tv[i])) { c.fail(std::string("ordered|roundtrip|") + MN[m], ctx + ": " + how + " returns " + vstr(got) + " (entry " + str(i) + " off by " + num(got[i] - v[i]) + ", tol " + num(tv[i]) + ")"); break; }
  };
  try {
    c.site("OrderedSimplex(values) ctor");
    OrderedSimplex U(v, (unsigned short)m, allowNull);
    judge(U.getFrequencies(), "constructor then getFrequencies", true);
    auditConstraints(U, allowNull, c, ctx + " (constructor)");
    c.site("OrderedSimplex(dim) ctor");
    OrderedSimplex V(n, (unsigned short)m, allowNull);
    judge(V.getFrequencies(), "dimension constructor then getFrequencies", false);
    c.site("OrderedSimplex::setFrequencies");
    V.setFrequencies(v);
    judge(V.getFrequencies(), "setFrequencies then getFrequencies", true);
    auditConstraints(V, allowNull, c, ctx + " (setFrequencies)");
    if (n >= 2) {
      // parameter updates keep the order and the sum; restoring the parameter restores the values
      c.site("OrderedSimplex::setParameterValue");
      double t0 = V.getParameterValue("theta1");
      for (int j = 0; j < 5; ++j) { V.setParameterValue("theta1", LAT[j]); judge(V.getFrequencies(), "theta1=" + num(LAT[j]) + " then getFrequencies", false); }
      V.setParameterValue("theta1", t0);
      judge(V.getFrequencies(), "theta1 changed and restored, then getFrequencies", true);
      // copy independence
      OrderedSimplex Y(V); Vd before = V.getFrequencies();
      Y.setParameterValue("theta1", t0 == 0.5 ? 0.25 : 0.5);
      if (V.getFrequencies() != before) c.fail("ordered|copy-not-independent", ctx);
    }
    c.tag(std::string("ordered-") + MN[m]);
    if (sample) c.sample(ctx + " -> " + vstr(U.getFrequencies()));
  } catch (bpp::Exception& e) { c.fail(std::string("ordered|exception|") + MN[m], ctx + ": " + line1(e.what())); }
}

// ---- users of the global-ratio coding in the other two anchor files: operation histories ---------------------------------
// Both classes keep a copy of the probability vector(s) next to the parameters (cached matrix / weight vector), so what is judged is
// the statement's own clause on every state of a short history: what the getter returns is the image of the parameters the object
// reports, and rows handed to the frequency setter come back unchanged (to rounding).
struct HSt : Clonable { HSt* clone() const override { return new HSt(*this); } };
class HAl : public virtual HmmStateAlphabet, public AbstractParametrizable {
  std::vector<HSt> st_;
public:
  HAl(size_t n) : AbstractParametrizable(""), st_(n) {}
  HAl* clone() const override { return new HAl(*this); }
  const Clonable& getState(size_t i) const override { return st_[i]; }
  size_t getNumberOfStates() const override { return st_.size(); }
  bool worksWith(const HmmStateAlphabet& a) const override { return a.getNumberOfStates() == st_.size(); }
};
static Vd stick(const Vd& th) {   // w_i = theta_i prod_{j<i}(1-theta_j), last = remainder; long double, rounded once
  std::vector<long double> w; long double x = 1; for (double t : th) { w.push_back((long double)t * x); x *= 1 - (long double)t; } w.push_back(x);
  Vd r; for (auto v : w) r.push_back((double)v); return r;
}
// rows used by the frequency setter (n = 2, 3); all entries positive
static Vd hrow(int n, int which, int i) {
  static const double R2[3][2][2] = {{{0.7, 0.3}, {0.2, 0.8}}, {{0.5, 0.5}, {0.5, 0.5}}, {{1e-6, 1 - 1e-6}, {0.25, 0.75}}};
  static const double R3[3][3][3] = {{{0.7, 0.2, 0.1}, {0.1, 0.8, 0.1}, {0.3, 0.3, 0.4}}, {{0.25, 0.25, 0.5}, {0.25, 0.25, 0.5}, {0.25, 0.25, 0.5}}, {{0.98, 0.01, 0.01}, {1e-6, 0.5, 0.5 - 1e-6}, {0.125, 0.75, 0.125}}};
  Vd r; for (int j = 0; j < n; ++j) r.push_back(n == 2 ? R2[which][i][j] : R3[which][i][j]); return r;
}
static const int HOPS = 10;
static const char* HOPN[HOPS] = {"getPij", "getEquilibriumFrequencies", "set(A)", "set(B)", "set(C)", "setParameterValue(1.theta1=0.25)", "matchParametersValues(foreign, row2 thetas=0.6)", "copy", "assigned from another matrix holding B", "setNamespace(toggle X.)"};
static void hmmHistory(int n, const std::vector<int>& ops, vf::Case& c) {
  std::string ctx = "FullHmmTransitionMatrix n=" + str(n) + " history:";
  try {
    auto al = std::make_shared<HAl>((size_t)n);
    std::unique_ptr<FullHmmTransitionMatrix> T(new FullHmmTransitionMatrix(al, ""));
    std::vector<Vd> th(n, Vd());            // model: the thetas the object should report, row by row
    for (int i = 0; i < n; ++i) for (int j = 0; j + 1 < n; ++j) th[i].push_back(1.0 / (n - j));
    std::vector<Vd> given(n);               // rows last handed to the setter and not yet overridden by a parameter update
    std::string ns;                         // current namespace
    for (int op : ops) {
      ctx += std::string(" ") + HOPN[op];
      bool readP = false, readE = false;
      switch (op) {
        case 0: readP = true; break;
        case 1: readE = true; break;
        case 2: case 3: case 4: {
          RowMatrix<double> M(n, n);
          for (int i = 0; i < n; ++i) { Vd r = hrow(n, op - 2, i); given[i] = r; for (int j = 0; j < n; ++j) M(i, j) = r[j];
            double y = 1; for (int j = 0; j + 1 < n; ++j) { th[i][j] = r[j] / y; y -= r[j]; } }
          c.site("FullHmmTransitionMatrix::setTransitionProbabilities"); T->setTransitionProbabilities(M);
          break; }
        case 5: c.site("FullHmmTransitionMatrix::setParameterValue"); T->setParameterValue("1.theta1", 0.25); th[0][0] = 0.25; given[0].clear(); break;
        case 6: { ParameterList pl; pl.addParameter(Parameter("zz.other", 0.1)); for (int j = 0; j + 1 < n; ++j) { pl.addParameter(Parameter(ns + "2.theta" + str(j + 1), 0.6)); th[1][j] = 0.6; } given[1].clear();
          c.site("FullHmmTransitionMatrix::matchParametersValues"); T->matchParametersValues(pl); break; }
        case 7: c.site("FullHmmTransitionMatrix::clone"); T.reset(T->clone()); break;
        case 8: {
          FullHmmTransitionMatrix O(al, ""); RowMatrix<double> M(n, n);
          for (int i = 0; i < n; ++i) { Vd r = hrow(n, 1, i); given[i] = r; for (int j = 0; j < n; ++j) M(i, j) = r[j];
            double y = 1; for (int j = 0; j + 1 < n; ++j) { th[i][j] = r[j] / y; y -= r[j]; } }
          O.setTransitionProbabilities(M);
          c.site("FullHmmTransitionMatrix::operator="); *T = O; ns = "";
          break; }
        case 9: ns = ns.empty() ? "X." : ""; c.site("FullHmmTransitionMatrix::setNamespace"); T->setNamespace(ns); break;
      }
      // state audit: parameters, then the entry reader, then (for the two caching readers) the cached objects
      c.site("FullHmmTransitionMatrix::Pij");
      for (int i = 0; i < n; ++i) {
        for (int j = 0; j + 1 < n; ++j) {
          double got = T->getParameterValue(str(i + 1) + ".theta" + str(j + 1));
          if (!(std::fabs(got - th[i][j]) <= tolTheta(1, n, 1e-6))) { c.fail("hmm-rows|parameter-differs-from-what-was-set", ctx + ": " + str(i + 1) + ".theta" + str(j + 1) + "=" + num(got) + " expected " + num(th[i][j])); return; }
        }
        Vd want = given[i].empty() ? stick(th[i]) : given[i];
        Vd tol = tolP(1, want);
        Vd viaEntry; for (int j = 0; j < n; ++j) viaEntry.push_back(T->Pij(i, j));
        if (!auditProb(viaEntry, n, c, "hmm-rows|Pij", ctx + " row " + str(i + 1))) return;
        for (int j = 0; j < n; ++j) if (!(std::fabs(viaEntry[j] - want[j]) <= tol[j])) { c.fail("hmm-rows|Pij-differs-from-the-row-the-parameters-define", ctx + ": row " + str(i + 1) + " = " + vstr(viaEntry) + " expected " + vstr(want)); return; }
        if (readP) {
          c.site("FullHmmTransitionMatrix::getPij");
          const Matrix<double>& P = T->getPij();
          Vd viaM; for (int j = 0; j < n; ++j) viaM.push_back(P(i, j));
          for (int j = 0; j < n; ++j) if (!(std::fabs(viaM[j] - want[j]) <= tol[j])) { c.fail("hmm-rows|getPij-differs-from-the-row-the-parameters-define", ctx + ": row " + str(i + 1) + " = " + vstr(viaM) + " expected " + vstr(want) + " (Pij(i,j) gives " + vstr(viaEntry) + ")"); return; }
        }
      }
      if (readE) {
        c.site("FullHmmTransitionMatrix::getEquilibriumFrequencies");
        Vd pi = T->getEquilibriumFrequencies();
        if (!auditProb(pi, n, c, "hmm-rows|equilibrium", ctx)) return;
        // stationarity against the rows the parameters define: |pi P - pi|_inf <= 1e-12 (the vector comes from a matrix power; contraction
        // of a positive matrix makes the residual far smaller than this unless the vector belongs to other rows)
        for (int j = 0; j < n; ++j) { long double s = 0; for (int i = 0; i < n; ++i) s += (long double)pi[i] * T->Pij(i, j);
          if (!(fabsl(s - pi[j]) <= 1e-12L)) { c.fail("hmm-rows|equilibrium-not-stationary-for-the-current-rows", ctx + ": pi=" + vstr(pi) + " (pi P - pi)[" + str(j) + "]=" + num((double)(s - pi[j]))); return; } }
      }
    }
    c.nontrivial(); c.tag("hmm-rows-history");
  } catch (bpp::Exception& e) { c.fail("hmm-rows|exception", ctx + ": " + line1(e.what())); }
}

static const int MOPS = 9;
static const char* MOPN[MOPS] = {"setParameterValue(theta1=0.25)", "setParameterValue(theta1=0.6)", "matchParametersValues(foreign, all thetas=0.75)", "setParametersValues(last theta=0)", "setAllParametersValues(thetas=1/2)", "setNamespace(A.)", "setNamespace()", "setNamespace(Mixture.)", "copy"};
static void mixHistory(int n, const std::vector<int>& ops, vf::Case& c) {
  std::string ctx = "MixtureOfDiscreteDistributions of " + str(n) + " constants, history:";
  try {
    std::vector<std::unique_ptr<DiscreteDistributionInterface>> comp; Vd w0;
    for (int i = 0; i < n; ++i) { comp.push_back(std::unique_ptr<DiscreteDistributionInterface>(new ConstantDistribution(1.0 + i))); }
    if (n == 2) w0 = {0.3, 0.7}; else w0 = {0.2, 0.3, 0.5};
    c.site("MixtureOfDiscreteDistributions::MixtureOfDiscreteDistributions");
    std::unique_ptr<MixtureOfDiscreteDistributions> M(new MixtureOfDiscreteDistributions(comp, w0));
    Vd th; { double y = 1; for (int i = 0; i + 1 < n; ++i) { th.push_back(w0[i] / y); y -= w0[i]; } }
    Vd given = w0; std::string ns = "Mixture.";
    auto audit = [&]() -> bool {
      c.site("MixtureOfDiscreteDistributions::getNProbability");
      for (int i = 0; i + 1 < n; ++i) { double got = M->getParameterValue("theta" + str(i + 1));
        if (!(std::fabs(got - th[i]) <= 64 * EPS)) { c.fail("mixture-weights|parameter-differs-from-what-was-set", ctx + ": theta" + str(i + 1) + "=" + num(got) + " expected " + num(th[i])); return false; }
        if (!M->getParameters().hasParameter(ns + "theta" + str(i + 1))) { c.fail("mixture-weights|parameter-not-under-the-current-namespace", ctx + ": no parameter " + ns + "theta" + str(i + 1)); return false; } }
      Vd want = given.empty() ? stick(th) : given, got;
      for (int i = 0; i < n; ++i) got.push_back(M->getNProbability(i));
      if (!auditProb(got, n, c, "mixture-weights|weights", ctx)) return false;
      for (int i = 0; i < n; ++i) if (!(std::fabs(got[i] - want[i]) <= 16 * n * EPS)) { c.fail("mixture-weights|weights-differ-from-the-image-of-the-parameters", ctx + ": weights " + vstr(got) + " expected " + vstr(want) + " for thetas " + vstr(th)); return false; }
      // the components are the constants 1..n, so category i carries exactly weight i
      c.site("MixtureOfDiscreteDistributions::getProbabilities");
      Vd cat = M->getCategories(), pr = M->getProbabilities();
      if (cat.size() != (size_t)n || pr.size() != (size_t)n) { c.fail("mixture-weights|category-count", ctx + ": " + str(cat.size()) + " categories"); return false; }
      for (int i = 0; i < n; ++i) if (cat[i] != 1.0 + i || !(std::fabs(pr[i] - want[i]) <= 16 * n * EPS)) { c.fail("mixture-weights|category-probabilities-differ-from-the-weights", ctx + ": categories " + vstr(cat) + " probabilities " + vstr(pr) + " expected weights " + vstr(want)); return false; }
      return true;
    };
    if (!audit()) return;
    for (int op : ops) {
      ctx += std::string(" ") + MOPN[op];
      switch (op) {
        case 0: case 1: { double v = op == 0 ? 0.25 : 0.6; c.site("MixtureOfDiscreteDistributions::setParameterValue"); M->setParameterValue("theta1", v); th[0] = v; given.clear(); break; }
        case 2: { ParameterList pl; pl.addParameter(Parameter("zz.other", 0.1)); for (int i = 0; i + 1 < n; ++i) { pl.addParameter(Parameter(ns + "theta" + str(i + 1), 0.75)); th[i] = 0.75; } given.clear();
          c.site("MixtureOfDiscreteDistributions::matchParametersValues"); M->matchParametersValues(pl); break; }
        case 3: { ParameterList pl; pl.addParameter(Parameter(ns + "theta" + str(n - 1), 0.0)); th[n - 2] = 0.0; given.clear();
          c.site("MixtureOfDiscreteDistributions::setParametersValues"); M->setParametersValues(pl); break; }
        case 4: { ParameterList pl = M->getParameters(); for (size_t k = 0; k < pl.size(); ++k) if (pl[k].getName().find("theta") != std::string::npos) pl[k].setValue(0.5);
          for (auto& t : th) t = 0.5; given.clear();
          c.site("MixtureOfDiscreteDistributions::setAllParametersValues"); M->setAllParametersValues(pl); break; }
        case 5: case 6: case 7: { ns = op == 5 ? "A." : op == 6 ? "" : "Mixture."; c.site("MixtureOfDiscreteDistributions::setNamespace"); M->setNamespace(ns); break; }
        case 8: c.site("MixtureOfDiscreteDistributions::clone"); M.reset(M->clone()); break;
      }
      if (!audit()) return;
    }
    c.nontrivial(); c.tag("mixture-weights-history");
  } catch (bpp::Exception& e) { c.fail("mixture-weights|exception", ctx + ": " + line1(e.what())); }
}

// ---- histories on one Simplex / OrderedSimplex object, rejected setter calls included ---------------------------------------------
// After every operation (accepted or refused with the library's exception) the probabilities the getter returns must be the image of the
// parameters the object reports: a fresh object given the same parameters is the reference (same code, no history).
static const int SOPS = 10;
static const char* SOPN[SOPS] = {"setParameterValue(theta1=0.25)", "setParameterValue(last theta=0.75)", "matchParametersValues(foreign, one theta=0.6)", "setFrequencies(ramp)", "setFrequencies(uniform)",
                                 "setFrequencies(first entry 0, sums to one)", "setFrequencies(sums to 1.1)", "copy (work goes on with the copy, the source is kept and watched)", "matchParametersValues(every theta=0.4)", "aliasParameters(theta1 <- theta2)"};
static void simplexHistory(int m, bool allowNull, bool ordered, int n, const std::vector<int>& ops, vf::Case& c) {
  std::string ctx = std::string(ordered ? "OrderedSimplex " : "Simplex ") + MN[m] + (allowNull ? " allowNull" : "") + " n=" + str(n) + " history:";
  auto orderedOf = [](const Vd& p) { Vd v(p.size()); long double x = 0; for (size_t i = p.size(); i > 0; --i) { x += (long double)p[i - 1] / i; v[i - 1] = (double)x; } return v; };
  try {
    std::unique_ptr<Simplex> S(ordered ? new OrderedSimplex((size_t)n, (unsigned short)m, allowNull) : new Simplex((size_t)n, (unsigned short)m, allowNull));
    // neither the setter nor the getter is virtual: the ordered variant is driven through its own type
    auto setF = [&](const Vd& v) { if (ordered) dynamic_cast<OrderedSimplex&>(*S).setFrequencies(v); else S->setFrequencies(v); };
    std::unique_ptr<Simplex> Src; Vd srcTh, srcP;   // the source of the last copy and what it held when the copy was taken
    for (size_t k = 0; k <= ops.size(); ++k) {
      if (k > 0) {
        int op = ops[k - 1]; ctx += std::string(" ") + SOPN[op];
        Vd ramp, unif((size_t)n, 1.0 / n), zero, big;
        { double tot = n * (n + 1) / 2.0; for (int i = 0; i < n; ++i) ramp.push_back((n - i) / tot); }     // decreasing: admissible for both variants
        zero = ramp; zero[1] += zero[0]; zero[0] = 0; big = ramp; big[0] += 0.1;
        if (ordered) { ramp = orderedOf(ramp); unif = orderedOf(unif);                                     // the ordered setter takes values, not probabilities
          zero = orderedOf(zero); big = orderedOf(big); }
        try {
          switch (op) {
            case 0: c.site("Simplex::setParameterValue"); S->setParameterValue("theta1", 0.25); break;
            case 1: c.site("Simplex::setParameterValue"); S->setParameterValue(tname(n - 2), 0.75); break;
            case 2: { ParameterList pl; pl.addParameter(Parameter("zz.other", 0.1)); pl.addParameter(Parameter(S->getNamespace() + tname(n >= 3 ? 1 : 0), 0.6)); c.site("Simplex::matchParametersValues"); S->matchParametersValues(pl); break; }
            case 3: c.site("Simplex::setFrequencies"); setF(ramp); break;
            case 4: c.site("Simplex::setFrequencies"); setF(unif); break;
            case 5: c.site("Simplex::setFrequencies (zero entry)"); setF(zero); break;
            case 6: c.site("Simplex::setFrequencies (sum 1.1)"); setF(big); break;
            case 7: { c.site("Simplex::clone"); Simplex* cp = ordered ? new OrderedSimplex(dynamic_cast<OrderedSimplex&>(*S)) : S->clone();
              Src = std::move(S); S.reset(cp); srcTh = thetas(*Src); srcP = Src->Simplex::getFrequencies(); break; }
            case 9: c.site("Simplex::aliasParameters"); S->aliasParameters("theta1", "theta2"); break;   // theta2 follows theta1 from now on (n >= 3; refused otherwise)
            case 8: { ParameterList pl; for (int i = 0; i + 1 < n; ++i) pl.addParameter(Parameter(S->getNamespace() + tname(i), 0.4)); c.site("Simplex::matchParametersValues"); S->matchParametersValues(pl); break; }
          }
        } catch (bpp::Exception&) { ctx += "(refused)"; c.tag(std::string("simplex-history:refused:") + (op == 5 ? "zero-entry" : op == 6 ? "sum" : "other")); }
      }
      c.site("Simplex::getFrequencies (history audit)");
      if (Src && (thetas(*Src) != srcTh || Src->Simplex::getFrequencies() != srcP)) { c.fail("simplex-history|copy-not-independent-of-its-source", ctx + ": the source of the copy held theta=" + vstr(srcTh) + " and now holds " + vstr(thetas(*Src)) + " (probabilities " + vstr(Src->Simplex::getFrequencies()) + ")"); return; }
      Vd th = thetas(*S);
      bool open = true; for (double t : th) if (!(t > 0 && t < 1)) open = false;
      if (!open) { c.tag("simplex-history:parameter-on-the-closed-boundary(not judged further)"); return; }    // outside the open cube (zero-allowing objects only)
      auditConstraints(*S, allowNull, c, ctx);
      Simplex F((size_t)n, (unsigned short)m, allowNull); setThetas(F, th, 0, c);
      Vd want = F.getFrequencies(), got = S->Simplex::getFrequencies(), tol = tolP(m, want);
      if (!auditProb(got, (size_t)n, c, "simplex-history|probabilities", ctx)) return;
      for (int i = 0; i < n; ++i) if (!(std::fabs(got[i] - want[i]) <= tol[i])) { c.fail(std::string("simplex-history|probabilities-differ-from-the-image-of-the-parameters|") + MN[m], ctx + ": holds " + vstr(got) + ", a fresh object with theta=" + vstr(th) + " gives " + vstr(want)); return; }
      for (int i = 0; i < n; ++i) if (S->prob((size_t)i) != got[i]) { c.fail("simplex-history|prob-vs-getFrequencies", ctx); return; }
      if (ordered) {
        Vd vw = orderedOf(got), vg = dynamic_cast<OrderedSimplex&>(*S).getFrequencies();
        if (vg.size() != (size_t)n) { c.fail("ordered-history|size", ctx); return; }
        for (int i = 0; i < n; ++i) if (!(std::fabs(vg[i] - vw[i]) <= 4 * n * EPS)) { c.fail("ordered-history|values-differ-from-the-tail-sums-of-the-probabilities", ctx + ": returns " + vstr(vg) + ", the probabilities " + vstr(got) + " give " + vstr(vw)); return; }
      }
    }
    c.nontrivial(); c.tag(ordered ? "ordered-history" : "simplex-history");
  } catch (bpp::Exception& e) { c.fail(std::string("simplex-history|exception|") + MN[m], ctx + ": " + line1(e.what())); }
}

int main(int argc, char** argv) {
  static auto nul = std::make_shared<NullOutputStream>();
  ApplicationTools::message = nul; ApplicationTools::warning = nul; ApplicationTools::error = nul;
  vf::Runner R(argc, argv, "C19");
  bool th = R.thorough();
  int NF = th ? 7 : 6;     // full lattice up to this dimension

  // (1a) full theta lattice
  for (int n = 1; n <= NF; ++n) {
    uint64_t pts = 1; for (int i = 1; i < n; ++i) pts *= 5;
    R.space("theta-lattice:full5^" + str(n - 1) + ":n" + str(n) + ":methods3:null2", pts * 6, [=](uint64_t idx, vf::Case& c) {
      std::vector<int> rad = {3, 2}; for (int i = 1; i < n; ++i) rad.push_back(5);
      std::vector<int> d = vf::digits(idx, rad);
      Vd t; for (int i = 1; i < n; ++i) t.push_back(LAT[d[1 + i]]);
      thetaCase(d[0] + 1, d[1] == 1, t, true, c, idx % 4099 == 7);
    }, 10.0);
  }
  // (1b) deviation-bounded lattice for n > NF
  for (int n = NF + 1; n <= 33; ++n) {
    // a 33-dimensional case costs several ms under ASan (name-based parameter lookups), hence the smaller D for large n in quick
    int D = th ? ((n == 8 || n == 9 || n == 16) ? 3 : 2) : ((n <= 9 || (n >= 15 && n <= 17)) ? 2 : 1);
    uint64_t cnt = devCount(n - 1, D);
    R.space("theta-lattice:dev<=" + str(D) + ":n" + str(n) + ":bases3:methods3:null2", cnt * 18, [=](uint64_t idx, vf::Case& c) {
      int m = (int)(idx % 3) + 1; bool an = (idx / 3) % 2; int base = (int)((idx / 6) % 3); uint64_t k = idx / 18;
      thetaCase(m, an, devVector(n - 1, D, base, k), k < (uint64_t)(n <= 9 ? 40 : 8), c, idx % 50021 == 7);   // path/history/copy checks on the first vectors only (cost)
    }, 10.0);
  }
  // (1c) ratios far closer to the ends of the open interval than the lattice: every vector over {1e-13, 1/2, 1-1e-13}^(n-1), n = 2..4
  R.space("theta-lattice:extremes{1e-13,1/2,1-1e-13}:n2..4:methods3:null2", (uint64_t)(3 + 9 + 27) * 6, [=](uint64_t idx, vf::Case& c) {
    static const double XT[3] = {0.5, 1e-13, 1 - 1e-13};
    int m = (int)(idx % 3) + 1; bool an = (idx / 3) % 2; uint64_t k = idx / 6; int n = 2; uint64_t cnt = 3; while (k >= cnt) { k -= cnt; cnt *= 3; ++n; }
    Vd t; for (int i = 1; i < n; ++i) { t.push_back(XT[k % 3]); k /= 3; }
    thetaCase(m, an, t, false, c, idx % 7 == 3);
  }, 10.0);
  // (2) probability vectors
  for (int n = 1; n <= 8; ++n) {
    uint64_t cnt = choose(7, n - 1);
    R.space("prob:compositions-of-8:n" + str(n) + ":methods3:null2", cnt * 6, [=](uint64_t idx, vf::Case& c) {
      int m = (int)(idx % 3) + 1; bool an = (idx / 3) % 2; uint64_t k = idx / 6;
      Vd p = composition(n, k);
      probCase(m, an, p, "composition/8", c, idx % 101 == 7);
      orderedCase(m, an, p, "composition/8", c, idx % 103 == 7);
    }, 10.0);
  }
  R.space("prob:families12:n1..33:methods3:null2", (uint64_t)NFAM * 6 * 33, [=](uint64_t idx, vf::Case& c) {
    std::vector<int> d = vf::digits(idx, {3, 2, NFAM, 33});
    int n = d[3] + 1;
    Vd p = family(d[2], n);
    if (minOf(p) < 0.99e-9) { c.tag("family-entry-below-1e-9(outside-quantifier,skipped)"); return; }
    probCase(d[0] + 1, d[1] == 1, p, FAMN[d[2]], c, idx % 97 == 7);
    orderedCase(d[0] + 1, d[1] == 1, p, FAMN[d[2]], c, idx % 89 == 7);
  }, 10.0);
  // (3) injectivity on the full lattice
  R.space("injective:full-lattice:n2.." + str(NF) + ":methods3", (uint64_t)3 * (NF - 1), [=](uint64_t idx, vf::Case& c) {
    int m = (int)(idx % 3) + 1, n = (int)(idx / 3) + 2;
    uint64_t pts = 1; for (int i = 1; i < n; ++i) pts *= 5;
    std::string ctx = std::string(MN[m]) + " n=" + str(n);
    try {
      c.site("Simplex::matchParametersValues");
      Simplex S(n, (unsigned short)m, false);
      std::vector<std::pair<Vd, uint64_t>> img; img.reserve(pts);
      std::vector<int> rad(n - 1, 5);
      for (uint64_t k = 0; k < pts; ++k) {
        std::vector<int> d = vf::digits(k, rad); Vd t; for (int i = 0; i < n - 1; ++i) t.push_back(LAT[d[i]]);
        setThetas(S, t, 0, c);
        img.push_back({S.getFrequencies(), k});
      }
      std::sort(img.begin(), img.end());
      for (size_t i = 0; i + 1 < img.size(); ++i) if (img[i].first == img[i + 1].first) {
        std::vector<int> a = vf::digits(img[i].second, rad), b = vf::digits(img[i + 1].second, rad);
        Vd ta, tb; for (int j = 0; j < n - 1; ++j) { ta.push_back(LAT[a[j]]); tb.push_back(LAT[b[j]]); }
        c.fail(std::string("simplex|not-injective|") + MN[m], ctx + ": theta=" + vstr(ta) + " and theta=" + vstr(tb) + " both map to " + vstr(img[i].first));
        break;
      }
      c.nontrivial(); c.tag("injectivity-scan");
      c.sample(ctx + ": " + str(pts) + " lattice vectors, all images distinct");
    } catch (bpp::Exception& e) { c.fail(std::string("simplex|exception|") + MN[m], ctx + ": " + line1(e.what())); }
  }, 120.0);

  // (4) histories on the two classes that keep a copy of the vector next to the global-ratio parameters
  {
    int HD = th ? 5 : 4, MD = th ? 5 : 4;
    uint64_t hc = 0, mc = 0; { uint64_t p = 1; for (int d = 0; d <= HD; ++d) { hc += p; p *= HOPS; } p = 1; for (int d = 0; d <= MD; ++d) { mc += p; p *= MOPS; } }
    auto decode = [](uint64_t k, int base) { std::vector<int> ops; uint64_t p = 1; int d = 0; while (k >= p) { k -= p; p *= base; ++d; } for (int i = 0; i < d; ++i) { ops.push_back((int)(k % base)); k /= base; } return ops; };
    R.space("hmm-rows:histories<=" + str(HD) + ":ops" + str(HOPS) + ":n2..3", hc * 2, [=](uint64_t idx, vf::Case& c) { hmmHistory(2 + (int)(idx % 2), decode(idx / 2, HOPS), c); if (idx % 997 == 5) c.sample("hmm rows history #" + str(idx)); }, 10.0);
    R.space("mixture-weights:histories<=" + str(MD) + ":ops" + str(MOPS) + ":n2..3", mc * 2, [=](uint64_t idx, vf::Case& c) { mixHistory(2 + (int)(idx % 2), decode(idx / 2, MOPS), c); if (idx % 997 == 5) c.sample("mixture weights history #" + str(idx)); }, 10.0);
  }
  {
    int SD = th ? 4 : 3;
    uint64_t sc = 0; { uint64_t p = 1; for (int d = 0; d <= SD; ++d) { sc += p; p *= SOPS; } }
    auto decode = [](uint64_t k, int base) { std::vector<int> ops; uint64_t p = 1; int d = 0; while (k >= p) { k -= p; p *= base; ++d; } for (int i = 0; i < d; ++i) { ops.push_back((int)(k % base)); k /= base; } return ops; };
    // variant index: method(3) x allowNull(2) x ordered(2) x n in {2,3,4}
    R.space("simplex-history:histories<=" + str(SD) + ":ops" + str(SOPS) + ":methods3:null2:ordered2:n2..4", sc * 36, [=](uint64_t idx, vf::Case& c) {
      std::vector<int> d = vf::digits(idx % 36, {3, 2, 2, 3});
      simplexHistory(d[0] + 1, d[1] == 1, d[2] == 1, 2 + d[3], decode(idx / 36, SOPS), c);
      if (idx % 4999 == 5) c.sample("simplex history #" + str(idx));
    }, 10.0);
  }
  R.expectSeen("simplex-history"); R.expectSeen("ordered-history"); R.expectSeen("simplex-history:refused:zero-entry"); R.expectSeen("simplex-history:refused:sum");
  R.expectSeen("hmm-rows-history"); R.expectSeen("mixture-weights-history");
  R.expectSeen("global-ratio-theta"); R.expectSeen("local-ratio-theta"); R.expectSeen("binary-theta");
  R.expectSeen("global-ratio-prob"); R.expectSeen("local-ratio-prob"); R.expectSeen("binary-prob");
  R.expectSeen("ordered-global-ratio"); R.expectSeen("ordered-local-ratio"); R.expectSeen("ordered-binary");
  R.expectSeen("theta-roundtrip-judged"); R.expectSeen("injectivity-scan");
  R.note("'returned unchanged (to rounding)': absolute 16 n eps + 2|1-sum(input)| for the global-ratio and binary codings; for the local-ratio coding relative (8 n eps + 4 eps sum_i p_i/p_(i+1)): its parameters theta_i = p_i/(p_i+p_(i+1)) are stored as doubles, and rounding a theta next to 1 is seen through 1-theta by every later entry (inherent in the parametrisation, not in the code).");
  R.note("injectivity: the images of all lattice vectors are pairwise different as double vectors (sort + neighbour scan), and theta -> p -> theta returns theta whenever the image has all entries >= 1e-9 (images with smaller entries are not admissible inputs of the frequency setter under the property's quantifier).");
  R.note("the parametrisation formulas themselves are not compared with the header's documentation; only normalisation, both round trips, path/history independence and copy independence are judged.");
  return R.finish();
}
