// C13 helpers: harness-side HMM components (state alphabet, fixed transition matrix, parametric emission table) and the
// long-double reference (path enumeration with second-order jets, forward pass for long sequences).
#pragma once
#include <Bpp/Numeric/AbstractParametrizable.h>
#include <Bpp/Numeric/Hmm/HmmStateAlphabet.h>
#include <Bpp/Numeric/Hmm/HmmTransitionMatrix.h>
#include <Bpp/Numeric/Hmm/HmmEmissionProbabilities.h>
#include <Bpp/Numeric/Matrix/Matrix.h>
#include <cmath>
#include <memory>
#include <string>
#include <vector>

namespace c13 {
typedef long double LD;

// ---------------------------------------------------------------- harness components
struct HState : bpp::Clonable { int k; HState(int i) : k(i) {} HState* clone() const override { return new HState(*this); } };

class HAlphabet : public virtual bpp::HmmStateAlphabet, public bpp::AbstractParametrizable {
  std::vector<HState> st_;
public:
  HAlphabet(size_t n) : bpp::AbstractParametrizable(""), st_() { for (size_t i = 0; i < n; ++i) st_.push_back(HState((int)i)); }
  HAlphabet* clone() const override { return new HAlphabet(*this); }
  const bpp::Clonable& getState(size_t i) const override { return st_[i]; }
  size_t getNumberOfStates() const override { return st_.size(); }
  bool worksWith(const bpp::HmmStateAlphabet& a) const override { return a.getNumberOfStates() == st_.size(); }
};

// fixed matrix with the stationary vector supplied by the harness; no parameters
class HTrans : public virtual bpp::HmmTransitionMatrix, public bpp::AbstractParametrizable {
  std::shared_ptr<const bpp::HmmStateAlphabet> a_;
  bpp::RowMatrix<double> p_;
  std::vector<double> pi_;
public:
  HTrans(std::shared_ptr<const bpp::HmmStateAlphabet> a, const std::vector<std::vector<double>>& P, const std::vector<double>& pi)
    : bpp::AbstractParametrizable(""), a_(a), p_(P.size(), P.size()), pi_(pi) {
    for (size_t i = 0; i < P.size(); ++i) for (size_t j = 0; j < P.size(); ++j) p_(i, j) = P[i][j];
  }
  HTrans* clone() const override { return new HTrans(*this); }
  const bpp::HmmStateAlphabet& hmmStateAlphabet() const override { return *a_; }
  std::shared_ptr<const bpp::HmmStateAlphabet> getHmmStateAlphabet() const override { return a_; }
  void setHmmStateAlphabet(std::shared_ptr<const bpp::HmmStateAlphabet> a) override { a_ = a; }
  size_t getNumberOfStates() const override { return pi_.size(); }
  double Pij(size_t i, size_t j) const override { return p_(i, j); }
  const bpp::Matrix<double>& getPij() const override { return p_; }
  const std::vector<double>& getEquilibriumFrequencies() const override { return pi_; }
};

// emission factor g_{ij}(theta) = 1 + s(theta-1)/2 + q(theta-1)^2/4 with (s,q) a fixed function of (site, state); e = base * g.
// g(1) = 1 (the base table is the emission table at theta = 1) and g > 0 on [0,2].
inline void gcoef(size_t site, size_t state, int& s, int& q) {
  static const int S[4] = {1, -1, 0, 1}; static const int Q[3] = {0, 1, 1};
  s = S[(site + 2 * state) % 4]; q = Q[(site + state) % 3];
}
template<class T> inline void gjet(size_t site, size_t state, T theta, T& g, T& g1, T& g2) {
  int s, q; gcoef(site, state, s, q); T u = theta - (T)1;
  g = (T)1 + (T)s * u / (T)2 + (T)q * u * u / (T)4; g1 = (T)s / (T)2 + (T)q * u / (T)2; g2 = (T)q / (T)2;
}

// second emission parameter phi: factor h_{ij}(phi) of the same form with another coefficient pattern; e = base * g(theta) * h(phi),
// h(1) = 1, so that at phi = 1 the table is exactly the one-parameter table.
inline void hcoef(size_t site, size_t state, int& s, int& q) {
  static const int S[4] = {-1, 1, 1, 0}; static const int Q[3] = {1, 0, 1};
  s = S[(2 * site + state) % 4]; q = Q[(site + 2 * state) % 3];
}
template<class T> inline void hjet(size_t site, size_t state, T phi, T& h, T& h1, T& h2) {
  int s, q; hcoef(site, state, s, q); T u = phi - (T)1;
  h = (T)1 + (T)s * u / (T)2 + (T)q * u * u / (T)4; h1 = (T)s / (T)2 + (T)q * u / (T)2; h2 = (T)q / (T)2;
}

class HEmis : public virtual bpp::HmmEmissionProbabilities, public bpp::AbstractParametrizable {
  std::shared_ptr<const bpp::HmmStateAlphabet> a_;
  std::vector<std::vector<double>> base_;
  mutable std::vector<std::vector<double>> e_, d1_, d2_;
  void fill_() {
    double th = getParameterValue("theta"), ph = getParameterValue("phi");
    for (size_t i = 0; i < base_.size(); ++i) for (size_t j = 0; j < base_[i].size(); ++j) {
      double g, g1, g2, h, h1, h2; gjet<double>(i, j, th, g, g1, g2); hjet<double>(i, j, ph, h, h1, h2); e_[i][j] = base_[i][j] * g * h;
    }
  }
  // k-th derivative table (k = 1, 2) with respect to the named variable at the CURRENT parameter values; zero for any other name
  void dfill_(const std::string& variable, int k, std::vector<std::vector<double>>& out) const {
    double th = getParameterValue("theta"), ph = getParameterValue("phi");
    for (size_t i = 0; i < base_.size(); ++i) for (size_t j = 0; j < base_[i].size(); ++j) {
      double g, g1, g2, h, h1, h2; gjet<double>(i, j, th, g, g1, g2); hjet<double>(i, j, ph, h, h1, h2);
      if (variable == "theta") out[i][j] = base_[i][j] * (k == 1 ? g1 : g2) * h;
      else if (variable == "phi") out[i][j] = base_[i][j] * g * (k == 1 ? h1 : h2);
      else out[i][j] = 0.;
    }
  }
public:
  HEmis(std::shared_ptr<const bpp::HmmStateAlphabet> a, const std::vector<std::vector<double>>& base, double theta = 1.0, double phi = 1.0)
    : bpp::AbstractParametrizable(""), a_(a), base_(base), e_(base), d1_(base), d2_(base) {
    addParameter_(new bpp::Parameter("theta", theta));
    addParameter_(new bpp::Parameter("phi", phi));
    fill_();
  }
  HEmis* clone() const override { return new HEmis(*this); }
  const bpp::HmmStateAlphabet& hmmStateAlphabet() const override { return *a_; }
  std::shared_ptr<const bpp::HmmStateAlphabet> getHmmStateAlphabet() const override { return a_; }
  void setHmmStateAlphabet(std::shared_ptr<const bpp::HmmStateAlphabet> a) override { a_ = a; }
  void fireParameterChanged(const bpp::ParameterList&) override { fill_(); }
  double operator()(size_t pos, size_t state) const override { return e_[pos][state]; }
  const std::vector<double>& operator()(size_t pos) const override { return e_[pos]; }
  size_t getNumberOfPositions() const override { return base_.size(); }
  // derivative tables are always those of the CURRENT parameter values for the requested variable (zero for any other variable)
  void computeDEmissionProbabilities(std::string& variable) const override { dfill_(variable, 1, d1_); }
  void computeD2EmissionProbabilities(std::string& variable) const override { dfill_(variable, 2, d2_); }
  const std::vector<double>& getDEmissionProbabilities(size_t pos) const override { return d1_[pos]; }
  const std::vector<double>& getD2EmissionProbabilities(size_t pos) const override { return d2_[pos]; }
};

// ---------------------------------------------------------------- reference model
struct Jet { LD v, d1, d2; };
inline Jet jmul(const Jet& a, const Jet& b) { return Jet{a.v * b.v, a.d1 * b.v + a.v * b.d1, a.d2 * b.v + 2 * a.d1 * b.d1 + a.v * b.d2}; }
inline Jet jadd(const Jet& a, const Jet& b) { return Jet{a.v + b.v, a.d1 + b.d1, a.d2 + b.d2}; }
inline Jet jscale(const Jet& a, LD c) { return Jet{a.v * c, a.d1 * c, a.d2 * c}; }

struct Model {
  size_t n = 0, L = 0;
  std::vector<std::vector<double>> P;     // P[i][j] = Pr(next = j | current = i), the doubles handed to / reported by the library
  std::vector<double> pi;                 // the equilibrium vector handed to / reported by the library
  std::vector<std::vector<double>> base;  // emission table at theta = 1
  double theta = 1.0, phi = 1.0;
  int var = 0;                            // the variable the reference differentiates with respect to: 0 = theta, 1 = phi
  std::vector<size_t> bp;                 // ascending, each in 1..L-1: first site of a new segment
};

struct Ref {
  bool positive = false;                  // total likelihood > 0
  LD logL = 0, d1 = 0, d2 = 0;            // log-likelihood and its derivatives with respect to the model's variable (Model::var)
  std::vector<std::vector<LD>> post;      // posterior state probabilities (defined when positive)
  std::vector<LD> siteLik;                // sum_j post[i][j] * e(i,j)
};

inline std::vector<LD> startVector(const Model& m) {       // pi . P, as the library starts every segment
  std::vector<LD> s(m.n, 0);
  for (size_t j = 0; j < m.n; ++j) for (size_t k = 0; k < m.n; ++k) s[j] += (LD)m.pi[k] * (LD)m.P[k][j];
  return s;
}
inline Jet emis(const Model& m, size_t site, size_t state) {
  LD g, g1, g2, h, h1, h2; gjet<LD>(site, state, (LD)m.theta, g, g1, g2); hjet<LD>(site, state, (LD)m.phi, h, h1, h2); LD b = (LD)m.base[site][state];
  // value exactly as the library sees it (double products in the same order), derivatives in long double
  double gd, gd1, gd2, hd, hd1, hd2; gjet<double>(site, state, m.theta, gd, gd1, gd2); hjet<double>(site, state, m.phi, hd, hd1, hd2);
  LD v = (LD)(m.base[site][state] * gd * hd);
  return m.var == 0 ? Jet{v, b * g1 * h, b * g2 * h} : Jet{v, b * g * h1, b * g * h2};
}

// depth-first enumeration of every hidden path of one segment [a,b): returns the sum over all completions of the prefix,
// and adds (prefix weight x completion sum) to the per-site per-state accumulators.
struct Enumerator {
  const Model& m; size_t a, b; std::vector<LD> start; std::vector<std::vector<LD>>* acc; unsigned long long paths = 0;
  Jet rec(size_t site, size_t prev, const Jet& prefix) {
    Jet total{0, 0, 0};
    for (size_t j = 0; j < m.n; ++j) {
      LD t = (site == a) ? start[j] : (LD)m.P[prev][j];
      Jet w = jscale(emis(m, site, j), t);
      Jet sub;
      if (site + 1 == b) { sub = w; ++paths; }
      else { Jet r = rec(site + 1, j, jmul(prefix, w)); sub = jmul(w, r); }
      (*acc)[site][j] += prefix.v * sub.v;
      total = jadd(total, sub);
    }
    return total;
  }
};

inline Ref enumerate(const Model& m, unsigned long long* npaths = nullptr) {
  Ref r; r.post.assign(m.L, std::vector<LD>(m.n, 0)); r.siteLik.assign(m.L, 0);
  std::vector<size_t> cut; cut.push_back(0); for (size_t b : m.bp) cut.push_back(b); cut.push_back(m.L);
  r.positive = true; unsigned long long np = 0;
  for (size_t s = 0; s + 1 < cut.size(); ++s) {
    Enumerator E{m, cut[s], cut[s + 1], startVector(m), &r.post};
    Jet t = E.rec(cut[s], 0, Jet{1, 0, 0}); np += E.paths;
    if (!(t.v > 0)) { r.positive = false; continue; }
    r.logL += std::log(t.v);
    LD a = t.d1 / t.v; r.d1 += a; r.d2 += t.d2 / t.v - a * a;
    for (size_t i = cut[s]; i < cut[s + 1]; ++i) for (size_t j = 0; j < m.n; ++j) r.post[i][j] /= t.v;
  }
  if (npaths) *npaths = np;
  if (r.positive) for (size_t i = 0; i < m.L; ++i) for (size_t j = 0; j < m.n; ++j) r.siteLik[i] += r.post[i][j] * emis(m, i, j).v;
  return r;
}

// long-double scaled forward/backward pass (for sequences too long to enumerate); value only
inline Ref forwardLD(const Model& m) {
  Ref r; r.post.assign(m.L, std::vector<LD>(m.n, 0)); r.siteLik.assign(m.L, 0); r.positive = true;
  std::vector<char> isStart(m.L, 0); isStart[0] = 1; for (size_t b : m.bp) isStart[b] = 1;
  std::vector<LD> st = startVector(m);
  std::vector<std::vector<LD>> f(m.L, std::vector<LD>(m.n, 0)), bk(m.L, std::vector<LD>(m.n, 1));
  std::vector<LD> sc(m.L, 0);
  for (size_t i = 0; i < m.L; ++i) {
    LD s = 0;
    for (size_t j = 0; j < m.n; ++j) {
      LD x = 0;
      if (isStart[i]) x = st[j]; else for (size_t k = 0; k < m.n; ++k) x += f[i - 1][k] * (LD)m.P[k][j];
      f[i][j] = x * emis(m, i, j).v; s += f[i][j];
    }
    sc[i] = s;
    if (!(s > 0)) { r.positive = false; return r; }
    for (size_t j = 0; j < m.n; ++j) f[i][j] /= s;
    r.logL += std::log(s);
  }
  for (size_t i = m.L - 1; i > 0; --i) {
    for (size_t j = 0; j < m.n; ++j) {
      if (isStart[i]) { bk[i - 1][j] = 1; continue; }
      // impossible moves are skipped: the rescaled backward value of a state that cannot be occupied may overflow, and 0 * inf is not 0
      LD x = 0; for (size_t k = 0; k < m.n; ++k) { LD w = (LD)m.P[j][k] * emis(m, i, k).v; if (w > 0) x += w * bk[i][k]; }
      bk[i - 1][j] = x / sc[i];
    }
  }
  for (size_t i = 0; i < m.L; ++i) for (size_t j = 0; j < m.n; ++j) { r.post[i][j] = f[i][j] > 0 ? f[i][j] * bk[i][j] : 0; r.siteLik[i] += r.post[i][j] * emis(m, i, j).v; }
  return r;
}

// input class: does the forward recursion, carried with per-site normalisation as the rescaled algorithms do, meet a positive
// per-site quantity e_i(j) * sum_k P(k,j) f_{i-1}(k) below 1e-290, i.e. one that a double cannot hold next to a normalised scale?
// (With the emission values used here such quantities are either above 1e-215 or below 1e-395.)
inline bool weightsBelowDoubleRange(const Model& m) {
  std::vector<char> isStart(m.L, 0); isStart[0] = 1; for (size_t b : m.bp) isStart[b] = 1;
  std::vector<LD> st = startVector(m), f(m.n, 0), q(m.n, 0);
  for (size_t i = 0; i < m.L; ++i) {
    LD s = 0;
    for (size_t j = 0; j < m.n; ++j) {
      LD x = 0; if (isStart[i]) x = st[j]; else for (size_t k = 0; k < m.n; ++k) x += f[k] * (LD)m.P[k][j];
      q[j] = x * emis(m, i, j).v; s += q[j];
      if (q[j] > 0 && q[j] < 1e-290L) return true;
    }
    if (!(s > 0)) return false;
    for (size_t j = 0; j < m.n; ++j) f[j] = q[j] / s;
  }
  return false;
}

// a stationary vector of P (any closed class structure, periodic or not): rows of lim ((P+I)/2)^(2^k), averaged from the uniform start
inline std::vector<double> stationary(const std::vector<std::vector<double>>& P) {
  size_t n = P.size(); std::vector<std::vector<LD>> Q(n, std::vector<LD>(n));
  for (size_t i = 0; i < n; ++i) for (size_t j = 0; j < n; ++j) Q[i][j] = ((LD)P[i][j] + (i == j ? 1 : 0)) / 2;
  for (int it = 0; it < 80; ++it) {
    std::vector<std::vector<LD>> R(n, std::vector<LD>(n, 0));
    for (size_t i = 0; i < n; ++i) for (size_t k = 0; k < n; ++k) if (Q[i][k] != 0) for (size_t j = 0; j < n; ++j) R[i][j] += Q[i][k] * Q[k][j];
    for (size_t i = 0; i < n; ++i) { LD s = 0; for (size_t j = 0; j < n; ++j) s += R[i][j]; for (size_t j = 0; j < n; ++j) R[i][j] /= s; }
    Q.swap(R);
  }
  std::vector<double> pi(n); for (size_t j = 0; j < n; ++j) { LD s = 0; for (size_t i = 0; i < n; ++i) s += Q[i][j]; pi[j] = (double)(s / n); }
  return pi;
}
} // namespace c13
