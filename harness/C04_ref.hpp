// C04 helper: exact dyadic-rational reference arithmetic and reference matrices (independent of the library)
#ifndef C04_REF_HPP
#define C04_REF_HPP
#include <vector>
#include <string>
#include <stdexcept>
#include <cmath>
#include <climits>
#include <algorithm>

namespace c04 {

// exact number n / 2^e (normalised: n odd or e == 0). All harness alphabets are dyadic, so every reference value is exact.
struct Dy {
  long long n; int e;
  Dy(long long v = 0, int ex = 0) : n(v), e(ex) { norm(); }
  void norm() { while (e > 0 && (n % 2 == 0)) { n /= 2; --e; } if (n == 0) e = 0; }
  // exact conversion (guarded: a reference that does not fit a double mantissa is a harness error, surfaced loudly)
  double d() const {
    if (n > (1LL << 53) || n < -(1LL << 53)) throw std::logic_error("C04 harness: reference value not exactly representable");
    return std::ldexp((double)n, -e);
  }
};
inline long long shl(long long v, int k) {
  if (k == 0) return v;
  if (k > 50) throw std::overflow_error("C04 harness: reference shift overflow");
  long long m = 1LL << k;
  if (v > LLONG_MAX / m || v < -(LLONG_MAX / m)) throw std::overflow_error("C04 harness: reference overflow");
  return v * m;
}
inline Dy operator+(const Dy& a, const Dy& b) { int e = std::max(a.e, b.e); return Dy(shl(a.n, e - a.e) + shl(b.n, e - b.e), e); }
inline Dy operator-(const Dy& a) { return Dy(-a.n, a.e); }
inline Dy operator-(const Dy& a, const Dy& b) { return a + (-b); }
inline Dy operator*(const Dy& a, const Dy& b) {
  __int128 p = (__int128)a.n * (__int128)b.n;
  if (p > (__int128)LLONG_MAX / 4 || p < -((__int128)LLONG_MAX / 4)) throw std::overflow_error("C04 harness: reference product overflow");
  return Dy((long long)p, a.e + b.e);
}
inline bool operator==(const Dy& a, const Dy& b) { return a.n == b.n && a.e == b.e; }
inline bool operator<(const Dy& a, const Dy& b) { return (a - b).n < 0; }
inline std::string dstr(const Dy& a) { std::string s = std::to_string(a.n); if (a.e) s += "/" + std::to_string(1LL << a.e); return s; }

typedef std::vector<Dy> RV;

struct RM {
  size_t r = 0, c = 0; std::vector<Dy> a;
  RM() {}
  RM(size_t r_, size_t c_) : r(r_), c(c_), a(r_ * c_) {}
  Dy& operator()(size_t i, size_t j) { return a.at(i * c + j); }
  const Dy& operator()(size_t i, size_t j) const { return a.at(i * c + j); }
};

// ---- textbook definitions ----
inline RM rmul(const RM& A, const RM& B) {            // (AB)_ij = sum_k A_ik B_kj ; requires A.c == B.r
  RM O(A.r, B.c);
  for (size_t i = 0; i < A.r; ++i) for (size_t j = 0; j < B.c; ++j) { Dy s; for (size_t k = 0; k < A.c; ++k) s = s + A(i, k) * B(k, j); O(i, j) = s; }
  return O;
}
inline RM radd(const RM& A, const RM& B, const Dy& x = Dy(1)) {   // A + x B ; same shape
  RM O(A.r, A.c); for (size_t k = 0; k < O.a.size(); ++k) O.a[k] = A.a[k] + x * B.a[k]; return O;
}
inline RM rtrans(const RM& A) { RM O(A.c, A.r); for (size_t i = 0; i < A.r; ++i) for (size_t j = 0; j < A.c; ++j) O(j, i) = A(i, j); return O; }
inline RM rid(size_t n) { RM O(n, n); for (size_t i = 0; i < n; ++i) O(i, i) = Dy(1); return O; }
inline RM rdiag(const RV& D) { RM O(D.size(), D.size()); for (size_t i = 0; i < D.size(); ++i) O(i, i) = D[i]; return O; }
inline RM rtridiag(const RV& D, const RV& U, const RV& L) {   // requires U.size() == L.size() == D.size()-1
  size_t n = D.size(); RM M(n, n);
  for (size_t k = 0; k < n; ++k) { M(k, k) = D[k]; if (k + 1 < n) { M(k, k + 1) = U[k]; M(k + 1, k) = L[k]; } }
  return M;
}
inline RM rpow(const RM& A, size_t p) { RM O = rid(A.r); for (size_t k = 0; k < p; ++k) O = rmul(O, A); return O; }
inline RM rkron(const RM& A, const RM& B) {          // (A (x) B)_{(i,k),(j,l)} = A_ij B_kl
  RM O(A.r * B.r, A.c * B.c);
  for (size_t I = 0; I < O.r; ++I) for (size_t J = 0; J < O.c; ++J) O(I, J) = A(I / B.r, J / B.c) * B(I % B.r, J % B.c);
  return O;
}
inline RM rhad(const RM& A, const RM& B) { RM O(A.r, A.c); for (size_t k = 0; k < O.a.size(); ++k) O.a[k] = A.a[k] * B.a[k]; return O; }
inline RM rdsum(const std::vector<const RM*>& v) {   // block diagonal
  size_t r = 0, c = 0; for (auto* m : v) { r += m->r; c += m->c; }
  RM O(r, c); size_t r0 = 0, c0 = 0;
  for (auto* m : v) { for (size_t i = 0; i < m->r; ++i) for (size_t j = 0; j < m->c; ++j) O(r0 + i, c0 + j) = (*m)(i, j); r0 += m->r; c0 += m->c; }
  return O;
}
inline RM rdiagrepl(const RM& A, const Dy& d) { RM O = A; for (size_t i = 0; i < A.r && i < A.c; ++i) O(i, i) = d; return O; }
struct CM { RM re, im; };
inline CM cmul(const CM& A, const CM& B) {           // (A + i iA)(B + i iB)
  CM O; O.re = radd(rmul(A.re, B.re), rmul(A.im, B.im), Dy(-1)); O.im = radd(rmul(A.re, B.im), rmul(A.im, B.re)); return O;
}
inline CM chad(const CM& A, const CM& B) {
  CM O; O.re = radd(rhad(A.re, B.re), rhad(A.im, B.im), Dy(-1)); O.im = radd(rhad(A.im, B.re), rhad(A.re, B.im)); return O;
}
}  // namespace c04
#endif
