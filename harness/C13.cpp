// C13 — all HMM likelihood algorithms compute the same, correct probability of the data
// VF-VARIANT: san
// VF-RULE: E2: every (transition matrix with rows from a finite row set incl. zero entries) x (emission sequence over a finite set of per-site emission vectors with values in {0,1e-200,1e-3,0.5,1}, one positive entry per site) x (every subset of break points) x (emission parameters theta, phi: e = base*g(theta)*h(phi)) for each (state count, length); inside a case every low-memory chunk size 2..L+1 (chunk size 1 in its own spaces), the rescaled and log-sum algorithms, posteriors, per-site likelihoods, first and second derivatives for both emission parameters (second variable asked while the first is cached) and a re-query pass are compared with long-double enumeration of all hidden paths (second-order jets in theta). Periodic emission blocks give lengths up to 12 (enumeration) and up to 5000 (long-double forward/backward reference, structured break-point families). Every sequence of 1..3 derivative queries over {d1,d2} x {theta,phi} on one object is compared with enumeration and with a fresh object. Built-in transition models: every parameter vector over a finite value set. E1: breadth-first search over histories of parameter updates, setBreakPoints and queries on one likelihood object per (algorithm x transition model), each answer compared bit-for-bit with a fresh object at the same parameter values; same for the two built-in transition models alone. A case is non-trivial when it has >= 2 states and >= 2 sites (E2) or changed the canonical state (E1).
// VF-BOUND: states 1..3 | 1..4; free emission sequences (every site chosen independently) up to length 5 | 6, periodic emission blocks up to length 7 | 12 with path enumeration (all break-point subsets throughout) and lengths 64, 1000 | 64, 200, 1000, 5000 with the forward reference (6 break-point families, chunk sizes {2,3,7,L-1,L,L+1,1000}); transition rows from a set of 4/6/7 rows per state count (all matrices over it); emission vectors: all 24 for 2 states at lengths 1-2, otherwise 2..6 representative vectors over {0,1e-200,1e-3,0.5,1}; (theta,phi) in {(1,1), (1.5,0.5)}; built-in models: every parameter vector over 2..5 values per parameter; histories up to depth 3 | 4 over 22 operations (derivative queries for both variables) on a 2-state 3-site model (closure for the transition models alone). State count 5, non-periodic sequences longer than 6 and break points outside 1..L-1 are not explored.
// VF-LEVEL: bounded-exhaustive differential check of the real classes against path enumeration; no sampling. Tolerances are rounding bounds (64*L*n*eps relative to max(1,|logL|) for values, 1024*L^2*n^2*eps and 1024*L^3*n^2*eps for first and second derivatives); history answers are compared exactly.
// VF-ASSUME: the harness-side HmmStateAlphabet/HmmTransitionMatrix/HmmEmissionProbabilities implementations (C13_hmm.hpp) follow the interfaces' contracts;; long double path enumeration is the definition of the likelihood (start vector pi.P as coded, equal to pi for a stationary pi);; g++/libstdc++ long double (x87 extended) arithmetic
// VF-TECHNIQUE: exhaustive enumeration of finite model families and operation histories on the real code against a long-double path-enumeration reference and fresh-object differential oracle
// VF-BUDGET_QUICK: 900
// VF-BUDGET_THOROUGH: 3600
#include "vf.hpp"
#include "common.hpp"
#include "C13_hmm.hpp"
#include <Bpp/Numeric/Hmm/RescaledHmmLikelihood.h>
#include <Bpp/Numeric/Hmm/LowMemoryRescaledHmmLikelihood.h>
#include <Bpp/Numeric/Hmm/LogsumHmmLikelihood.h>
#include <Bpp/Numeric/Hmm/FullHmmTransitionMatrix.h>
#include <Bpp/Numeric/Hmm/AutoCorrelationTransitionMatrix.h>
#include <map>
using namespace bpp;
using namespace c13;
using vf::num;
using vf::str;

typedef std::vector<double> Vd;
typedef std::vector<Vd> VVd;
static const double EPS = 2.220446049250313e-16;
static const double NINF = -std::numeric_limits<double>::infinity();

// ------------------------------------------------------------------------------------------------ alphabets
static VVd rowSet(size_t n) {
  switch (n) {
    case 1: return {{1}};
    case 2: return {{0.5, 0.5}, {0.9, 0.1}, {1, 0}, {0, 1}};
    case 3: return {{0.5, 0.25, 0.25}, {0.9, 0.1, 0}, {1, 0, 0}, {0, 1, 0}, {0, 0, 1}, {0, 0.5, 0.5}};
    default: return {{0.25, 0.25, 0.25, 0.25}, {0.9, 0.1, 0, 0}, {1, 0, 0, 0}, {0, 1, 0, 0}, {0, 0, 1, 0}, {0, 0, 0, 1}, {0, 0.5, 0.5, 0}};
  }
}
// k == 0: every vector over {0.5,1,1e-3,0,1e-200}^n with a positive entry (n <= 2); otherwise the first k of a fixed list
static VVd emisSet(size_t n, size_t k) {
  static const double V[5] = {0.5, 1, 1e-3, 0, 1e-200};
  VVd r;
  if (k == 0) {
    size_t tot = 1; for (size_t i = 0; i < n; ++i) tot *= 5;
    for (size_t x = 0; x < tot; ++x) { Vd v(n); size_t y = x; bool pos = false; for (size_t i = 0; i < n; ++i) { v[i] = V[y % 5]; y /= 5; if (v[i] > 0) pos = true; } if (pos) r.push_back(v); }
    return r;
  }
  VVd all;
  switch (n) {
    case 1: all = {{0.5}, {1e-3}, {1}, {1e-200}}; break;
    case 2: all = {{0.5, 1e-3}, {0, 1}, {1e-200, 1}, {1e-200, 0}, {1e-3, 0.5}, {1, 0.5}}; break;
    case 3: all = {{0.5, 1e-3, 1}, {1e-3, 0.5, 0}, {0, 1, 1e-200}, {1e-200, 0, 0.5}, {1, 1, 1}}; break;
    default: all = {{0.5, 1e-3, 1, 0.5}, {0, 0.5, 1e-200, 1}, {1e-3, 0, 0, 0.5}, {1, 1, 1, 1}}; break;
  }
  for (size_t i = 0; i < k && i < all.size(); ++i) r.push_back(all[i]);
  return r;
}
static uint64_t ipow(uint64_t b, size_t e) { uint64_t r = 1; while (e--) r *= b; return r; }

static std::string vv(const VVd& m) { std::string s = "["; for (auto& r : m) s += vf::vstr(r); return s + "]"; }
static std::string describe(const Model& m) {
  std::string b = "{"; for (size_t x : m.bp) b += str(x) + ","; b += "}";
  return "n=" + str(m.n) + " L=" + str(m.L) + " P=" + vv(m.P) + " pi=" + vf::vstr(m.pi) + (m.L <= 12 ? " emis(theta=phi=1)=" + vv(m.base) : " emis=periodic " + vv(VVd(m.base.begin(), m.base.begin() + 3)) + "...") + " theta=" + num(m.theta) + " phi=" + num(m.phi) + " breakPoints=" + b;
}
static bool sameD(double a, double b) { return a == b || (std::isnan(a) && std::isnan(b)); }
static bool sameV(const Vd& a, const Vd& b) { if (a.size() != b.size()) return false; for (size_t i = 0; i < a.size(); ++i) if (!sameD(a[i], b[i])) return false; return true; }

// ------------------------------------------------------------------------------------------------ building the real objects
enum Alg { RESC = 0, LOGS = 1, LOWM = 2 };
static const char* ALGN[] = {"rescaled", "logsum", "lowmem"};
static const char* ALGC[] = {"RescaledHmmLikelihood", "LogsumHmmLikelihood", "LowMemoryRescaledHmmLikelihood"};

struct Built {
  std::shared_ptr<HAlphabet> a; std::shared_ptr<HmmTransitionMatrix> t; std::shared_ptr<HEmis> e; std::unique_ptr<HmmLikelihood> lk;
};
static std::unique_ptr<HmmLikelihood> mkLik(Alg alg, Built& b, size_t chunk, vf::Case& c) {
  c.site((std::string(ALGC[alg]) + "::constructor").c_str());
  switch (alg) {
    case RESC: return std::unique_ptr<HmmLikelihood>(new RescaledHmmLikelihood(b.a, b.t, b.e, ""));
    case LOGS: return std::unique_ptr<HmmLikelihood>(new LogsumHmmLikelihood(b.a, b.t, b.e, ""));
    default: return std::unique_ptr<HmmLikelihood>(new LowMemoryRescaledHmmLikelihood(b.a, b.t, b.e, "", chunk));
  }
}
static Built buildH(Alg alg, const Model& m, size_t chunk, vf::Case& c) {
  Built b; b.a = std::make_shared<HAlphabet>(m.n); b.t = std::make_shared<HTrans>(b.a, m.P, m.pi); b.e = std::make_shared<HEmis>(b.a, m.base, m.theta, m.phi);
  b.lk = mkLik(alg, b, chunk, c);
  if (!m.bp.empty()) { c.site((std::string(ALGC[alg]) + "::setBreakPoints").c_str()); b.lk->setBreakPoints(m.bp); }
  return b;
}

// ------------------------------------------------------------------------------------------------ judging one likelihood object against the reference
static double tolLog(const Model& m, const Ref& r) { return 64. * (double)m.L * (double)m.n * EPS * std::max(1., std::fabs((double)r.logL)); }

// returns true when the value is right (and the data are possible): only then are downstream answers of this object judged
static bool judgeLog(vf::Case& c, const std::string& alg, double got, const Model& m, const Ref& r, const std::string& extra) {
  auto d = [&] { return describe(m) + extra + ": getLogLikelihood=" + num(got) + (r.positive ? " expected " + num((double)r.logL) : " for data of probability 0"); };
  if (!r.positive) {
    // log 0: nothing finite is acceptable; -inf and NaN are both recorded, not judged (the statement does not say how impossible data are reported)
    if (std::isfinite(got) || got > 0) c.fail(alg + "|loglik|finite-for-impossible-data", d());
    return false;
  }
  bool wrong = std::isnan(got) || got == NINF || !(std::fabs(got - (double)r.logL) <= tolLog(m, r));
  // input class with its own signature: the per-site rescaled quantities of these data do not fit a double (relative weight of a
  // state below ~1e-290 inside one site); whatever the wrong answer looks like (-inf, NaN, finite), it is reported under this class
  if (wrong && weightsBelowDoubleRange(m)) { c.fail(alg + "|loglik|wrong-when-a-state-weight-is-below-double-range-within-a-site", d() + " tol=" + num(tolLog(m, r))); return false; }
  if (std::isnan(got)) { c.fail(alg + "|loglik|nan", d()); return false; }
  if (got == NINF) { c.fail(alg + "|loglik|minus-infinity-for-possible-data", d()); return false; }
  if (!(std::fabs(got - (double)r.logL) <= tolLog(m, r))) { c.fail(alg + "|loglik|value", d() + " tol=" + num(tolLog(m, r))); return false; }
  return true;
}

static Vd flat(const VVd& v) { Vd r; for (auto& x : v) r.insert(r.end(), x.begin(), x.end()); return r; }

static void judgeQueries(vf::Case& c, Alg algk, HmmLikelihood& lk, const Model& m, const Ref& r, bool withDeriv) {
  std::string alg = ALGN[algk], cls = ALGC[algk], in = describe(m);
  double tol = tolLog(m, r);
  // a library exception on these inputs is an answer the property does not allow: reported per clause (cheaper than letting it
  // terminate the worker, same information)
  auto raised = [&](const std::string& clause, const Exception& e) { c.fail(alg + "|" + clause + "|raised-exception", in + ": " + typeid(e).name() + ": " + e.what()); };
  // ---- posteriors
  VVd pp; bool postOk = false;
  try {
  c.site((cls + "::getHiddenStatesPosteriorProbabilities").c_str());
  lk.getHiddenStatesPosteriorProbabilities(pp, false);
  postOk = pp.size() == m.L;
  if (!postOk) c.fail(alg + "|posterior|shape", in + ": " + str(pp.size()) + " rows");
  for (size_t i = 0; i < m.L && postOk; ++i) {
    if (pp[i].size() != m.n) { c.fail(alg + "|posterior|shape", in); postOk = false; break; }
    double s = 0;
    for (size_t j = 0; j < m.n; ++j) {
      double p = pp[i][j]; s += p;
      auto w = [&] { return in + ": P(state " + str(j) + " at site " + str(i) + ")=" + num(p) + " expected " + num((double)r.post[i][j]); };
      if (std::isnan(p)) { c.fail(alg + "|posterior|nan", w()); postOk = false; }
      else if (p < 0) { c.fail(alg + "|posterior|negative", w()); postOk = false; }
      else if (!(std::fabs(p - (double)r.post[i][j]) <= tol)) { c.fail(alg + "|posterior|value", w() + " tol=" + num(tol)); postOk = false; }
    }
    if (postOk && !(std::fabs(s - 1.) <= (double)m.n * tol)) { c.fail(alg + "|posterior|sum", in + ": site " + str(i) + " sums to " + num(s)); postOk = false; }
  }
  if (postOk) {
    c.site((cls + "::getHiddenStatesPosteriorProbabilitiesForASite").c_str());
    for (size_t i = 0; i < m.L; ++i) { Vd one = lk.getHiddenStatesPosteriorProbabilitiesForASite(i); if (!sameV(one, pp[i])) { c.fail(alg + "|posterior|ForASite-differs-from-table", in + ": site " + str(i) + " " + vf::vstr(one) + " vs " + vf::vstr(pp[i])); break; } }
    c.site((cls + "::getHiddenStatesPosteriorProbabilities(append)").c_str());
    VVd qq(1, Vd(1, 7.)); lk.getHiddenStatesPosteriorProbabilities(qq, true);
    bool ok = qq.size() == m.L + 1 && qq[0] == Vd(1, 7.); for (size_t i = 0; ok && i < m.L; ++i) ok = sameV(qq[i + 1], pp[i]);
    if (!ok) c.fail(alg + "|posterior|append", in);
    // ---- per-site likelihoods: sum_j posterior(i,j) * emission(i,j)
    c.site((cls + "::getLikelihoodForEachSite").c_str());
    Vd sl = lk.getLikelihoodForEachSite();
    if (sl.size() != m.L) c.fail(alg + "|site-likelihood|shape", in);
    else for (size_t i = 0; i < m.L; ++i) {
      double me = 0; for (size_t j = 0; j < m.n; ++j) me = std::max(me, (double)emis(m, i, j).v);
      double t2 = (double)m.n * tol * me; // posterior error (<= tol each) times the emission values
      c.site((cls + "::getLikelihoodForASite").c_str());
      double one = lk.getLikelihoodForASite(i);
      if (!(std::fabs(sl[i] - (double)r.siteLik[i]) <= t2)) { c.fail(alg + "|site-likelihood|value", in + ": site " + str(i) + " got " + num(sl[i]) + " expected " + num((double)r.siteLik[i])); break; }
      if (!(std::fabs(one - (double)r.siteLik[i]) <= t2)) { c.fail(alg + "|site-likelihood|ForASite-value", in + ": site " + str(i) + " got " + num(one) + " expected " + num((double)r.siteLik[i])); break; }
    }
  }
  } catch (Exception& e) { raised("posterior", e); postOk = false; }
  // ---- derivatives of getValue() = -logL with respect to theta
  if (withDeriv) try {
    double L = (double)m.L, n = (double)m.n;
    double t1 = 1024. * L * L * n * n * EPS * std::max(1., std::fabs((double)r.d1)), t2 = 1024. * L * L * L * n * n * EPS * std::max(1., std::fabs((double)r.d2));
    c.site((cls + "::getFirstOrderDerivative").c_str());
    double d1 = lk.getFirstOrderDerivative("theta");
    bool ok1 = true, ok2 = true;
    std::string w1 = in + ": d(-logL)/dtheta=" + num(d1) + " expected " + num(-(double)r.d1);
    if (std::isnan(d1)) { c.fail(alg + "|first-derivative|nan", w1); ok1 = false; }
    else if (!(std::fabs(d1 + (double)r.d1) <= t1)) { c.fail(alg + "|first-derivative|value", w1 + " tol=" + num(t1)); ok1 = false; }
    if (ok1) {
      c.site((cls + "::getSecondOrderDerivative").c_str());
      double d2 = lk.getSecondOrderDerivative("theta");
      std::string w2 = in + ": d2(-logL)/dtheta2=" + num(d2) + " expected " + num(-(double)r.d2);
      if (std::isnan(d2)) { c.fail(alg + "|second-derivative|nan", w2); ok2 = false; }
      else if (!(std::fabs(d2 + (double)r.d2) <= t2)) { c.fail(alg + "|second-derivative|value", w2 + " tol=" + num(t2)); ok2 = false; }
      // asking again must not change the answers
      c.site((cls + "::getFirstOrderDerivative(again)").c_str());
      double d1b = lk.getFirstOrderDerivative("theta");
      if (!sameD(d1, d1b)) c.fail(alg + "|requery|first-derivative-changed-by-second-derivative-query", in + ": " + num(d1) + " then " + num(d1b));
      if (ok2) {
        c.site((cls + "::getSecondOrderDerivative(again)").c_str());
        double d2b = lk.getSecondOrderDerivative("theta");
        if (!sameD(d2, d2b)) c.fail(alg + "|requery|second-derivative-changed", in + ": " + num(d2) + " then " + num(d2b));
      }
      // the second emission parameter, asked on the same object while the theta derivatives are cached: second derivative first
      if (ok2) {
        Model mq = m; mq.var = 1; Ref rq = enumerate(mq);
        double u1 = 1024. * L * L * n * n * EPS * std::max(1., std::fabs((double)rq.d1)), u2 = 1024. * L * L * L * n * n * EPS * std::max(1., std::fabs((double)rq.d2));
        c.site((cls + "::getSecondOrderDerivative(phi after theta)").c_str());
        double e2 = lk.getSecondOrderDerivative("phi");
        if (!(std::fabs(e2 + (double)rq.d2) <= u2)) c.fail(alg + "|other-variable|second-derivative-after-derivatives-of-first-variable", in + ": d2(-logL)/dphi2=" + num(e2) + " expected " + num(-(double)rq.d2) + " tol=" + num(u2));
        c.site((cls + "::getFirstOrderDerivative(phi after theta)").c_str());
        double e1 = lk.getFirstOrderDerivative("phi");
        if (!(std::fabs(e1 + (double)rq.d1) <= u1)) c.fail(alg + "|other-variable|first-derivative-after-derivatives-of-first-variable", in + ": d(-logL)/dphi=" + num(e1) + " expected " + num(-(double)rq.d1) + " tol=" + num(u1));
        c.site((cls + "::getFirstOrderDerivative(theta after phi)").c_str());
        double d1c = lk.getFirstOrderDerivative("theta");
        if (!sameD(d1, d1c)) c.fail(alg + "|other-variable|first-derivative-of-first-variable-changed", in + ": " + num(d1) + " then " + num(d1c));
      }
    }
  }
  catch (Exception& e) { raised("derivative", e); }
  // ---- queries are observers: the value and the posteriors are unchanged by them
  c.site((cls + "::getLogLikelihood(again)").c_str());
  double again = lk.getLogLikelihood();
  if (!(std::fabs(again - (double)r.logL) <= tol)) c.fail(alg + "|requery|loglik-changed-by-queries", in + ": now " + num(again));
  if (!sameD(lk.getValue(), -again)) c.fail(alg + "|getValue-is-not-minus-loglik", in);
  if (postOk) {
    c.site((cls + "::getHiddenStatesPosteriorProbabilities(again)").c_str());
    VVd p2; lk.getHiddenStatesPosteriorProbabilities(p2, false);
    if (!sameV(flat(p2), flat(pp))) c.fail(alg + "|requery|posteriors-changed-by-queries", in);
  }
}

// one model instance: all algorithms, all chunk sizes given
static void runModel(vf::Case& c, const Model& m, const Ref& r, bool withDeriv, const std::vector<size_t>& chunks) {
  bool okAll[2] = {false, false}; double val[2] = {0, 0};
  for (int k = 0; k < 2; ++k) {
    Alg alg = k == 0 ? RESC : LOGS;
    Built b = buildH(alg, m, 0, c);
    c.site((std::string(ALGC[alg]) + "::getLogLikelihood").c_str());
    double got = b.lk->getLogLikelihood(); val[k] = got;
    okAll[k] = judgeLog(c, ALGN[alg], got, m, r, "");
    if (okAll[k]) judgeQueries(c, alg, *b.lk, m, r, withDeriv);
  }
  if (okAll[0] && okAll[1] && !(std::fabs(val[0] - val[1]) <= 2 * tolLog(m, r))) c.fail("cross|rescaled-vs-logsum", describe(m) + ": " + num(val[0]) + " vs " + num(val[1]));
  for (size_t ch : chunks) {
    Built b = buildH(LOWM, m, ch, c);
    c.site("LowMemoryRescaledHmmLikelihood::getLogLikelihood");
    double got = b.lk->getLogLikelihood();
    bool ok = judgeLog(c, ALGN[LOWM], got, m, r, " chunk=" + str(ch));
    if (ok && !sameD(b.lk->getValue(), -got)) c.fail("lowmem|getValue-is-not-minus-loglik", describe(m));
    if (ok && okAll[0] && !(std::fabs(val[0] - got) <= 2 * tolLog(m, r))) c.fail("cross|rescaled-vs-lowmem", describe(m) + " chunk=" + str(ch) + ": " + num(val[0]) + " vs " + num(got));
    if (!ok) break; // one witness per model is enough
  }
}

static void tagModel(vf::Case& c, const Model& m, const Ref& r) {
  bool zt = false, ze = false, tiny = false;
  for (auto& row : m.P) for (double x : row) if (x == 0) zt = true;
  for (auto& row : m.base) for (double x : row) { if (x == 0) ze = true; if (x > 0 && x < 1e-100) tiny = true; }
  if (zt) c.tag("zero-transition-entry");
  if (ze) c.tag("zero-emission-entry");
  if (tiny) c.tag("emission-1e-200");
  if (!m.bp.empty()) c.tag("with-break-points");
  c.tag(r.positive ? "possible-data" : "impossible-data(likelihood 0)");
  if (m.n >= 2 && m.L >= 2) c.nontrivial();
}

// ------------------------------------------------------------------------------------------------ E2 families with the harness transition matrix
struct Fam {
  std::string kind;     // paths | periodic | long | chunk1
  size_t n, L, k;       // states, length, emission-set size (0 = full product)
  size_t pmax;          // 0: every site free; otherwise emission blocks of period 1..pmax repeated
  int nTheta;           // 1: theta = 1; 2: theta in {1, 1.5}
  bool allBp;           // every subset of {1..L-1} or the 6 structured families
  std::string name() const { return kind + ":n" + str(n) + ":L" + str(L) + ":emis" + (k ? str(k) : std::string("All")) + (pmax ? ":period<=" + str(pmax) : std::string()) + ":theta" + str(nTheta) + (allBp ? "" : ":bp6"); }
};
static std::vector<size_t> bpFamily(size_t L, int f) {
  std::vector<size_t> b;
  switch (f) {
    case 0: break;
    case 1: b = {L / 2}; break;
    case 2: b = {1}; break;
    case 3: b = {L - 1}; break;
    case 4: for (size_t x = 7; x < L; x += 7) b.push_back(x); break;
    default: b = {1, 2, 3}; break;
  }
  return b;
}
static uint64_t famSize(const Fam& f, uint64_t& nMat, uint64_t& nSeq, uint64_t& nBp) {
  nMat = ipow(rowSet(f.n).size(), f.n);
  uint64_t K = emisSet(f.n, f.k).size();
  if (f.pmax == 0) nSeq = ipow(K, f.L); else { nSeq = 0; for (size_t p = 1; p <= f.pmax; ++p) nSeq += ipow(K, p); }
  nBp = f.allBp ? (1ull << (f.L - 1)) : 6;
  return nMat * nSeq * nBp * (uint64_t)f.nTheta;
}
static Model famModel(const Fam& f, uint64_t idx) {
  uint64_t nMat, nSeq, nBp; famSize(f, nMat, nSeq, nBp);
  // least significant: matrix, then theta, then break points, then emission sequence (index 0: uniform matrix, theta 1, no break point, first emission vector everywhere)
  uint64_t im = idx % nMat; idx /= nMat; uint64_t it = idx % f.nTheta; idx /= f.nTheta; uint64_t ib = idx % nBp; idx /= nBp; uint64_t is = idx;
  Model m; m.n = f.n; m.L = f.L; m.theta = it == 0 ? 1.0 : 1.5; m.phi = it == 0 ? 1.0 : 0.5;
  VVd rows = rowSet(f.n); m.P.resize(f.n);
  for (size_t i = 0; i < f.n; ++i) { m.P[i] = rows[im % rows.size()]; im /= rows.size(); }
  m.pi = stationary(m.P);
  VVd E = emisSet(f.n, f.k); uint64_t K = E.size(); m.base.resize(f.L);
  if (f.pmax == 0) { for (size_t i = 0; i < f.L; ++i) { m.base[i] = E[is % K]; is /= K; } }
  else {
    size_t p = 1; while (is >= ipow(K, p)) { is -= ipow(K, p); ++p; }
    VVd block(p); for (size_t i = 0; i < p; ++i) { block[i] = E[is % K]; is /= K; }
    for (size_t i = 0; i < f.L; ++i) m.base[i] = block[i % p];
  }
  if (f.allBp) { for (size_t b = 1; b < f.L; ++b) if (ib & (1ull << (b - 1))) m.bp.push_back(b); }
  else m.bp = bpFamily(f.L, (int)ib);
  return m;
}
static void famSpace(vf::Runner& R, const Fam& f) {
  uint64_t a, b, d; uint64_t size = famSize(f, a, b, d);
  bool useEnum = f.L <= 12;
  R.space(f.name(), size, [=](uint64_t idx, vf::Case& c) {
    Model m = famModel(f, idx);
    Ref r = useEnum ? enumerate(m) : forwardLD(m);
    tagModel(c, m, r);
    // self-check of the derivative reference on a regular sub-grid: the jets of the enumerated likelihood are the limit of central
    // differences of the enumerated log-likelihood (h = 1e-3 in long double: truncation <= ~1e-6 per site, rounding ~1e-10)
    if (useEnum && r.positive && idx % 97 == 0) {
      Model mp = m, mm = m; const double h = 1e-3; mp.theta = m.theta + h; mm.theta = m.theta - h;
      Ref rp = enumerate(mp), rm = enumerate(mm);
      if (rp.positive && rm.positive) {
        LD hh = (LD)mp.theta - (LD)mm.theta; LD f1 = (rp.logL - rm.logL) / hh, f2 = (rp.logL - 2 * r.logL + rm.logL) / (hh * hh / 4);
        double tolfd = 1e-4 * (double)m.L;
        if (!(std::fabs((double)(f1 - r.d1)) <= tolfd) || !(std::fabs((double)(f2 - r.d2)) <= tolfd))
          c.fail("HARNESS|reference-jets-disagree-with-finite-differences", describe(m) + ": jets " + num((double)r.d1) + ", " + num((double)r.d2) + " finite differences " + num((double)f1) + ", " + num((double)f2));
        c.tag("reference-derivatives-cross-checked-by-finite-differences");
      }
    }
    std::vector<size_t> chunks;
    if (f.kind == "chunk1") chunks = {1};
    else if (f.L <= 12) { for (size_t ch = 2; ch <= f.L + 1; ++ch) chunks.push_back(ch); }
    else chunks = {2, 3, 7, f.L - 1, f.L, f.L + 1, 1000};
    if (f.kind == "chunk1") {
      Built bb = buildH(LOWM, m, 1, c);
      c.site("LowMemoryRescaledHmmLikelihood::getLogLikelihood");
      judgeLog(c, "lowmem", bb.lk->getLogLikelihood(), m, r, " chunk=1");
    } else runModel(c, m, r, useEnum, chunks);
    if (idx % 7919 == 11) c.sample(describe(m) + " -> logL " + (r.positive ? num((double)r.logL) : std::string("-inf")));
  }, f.L > 100 ? 30.0 : 10.0);
}

// ------------------------------------------------------------------------------------------------ E2: every order of derivative queries on one object
// queries 0: d1(theta), 1: d1(phi), 2: d2(theta), 3: d2(phi); every sequence of 1, 2 and 3 queries on ONE object (no update in
// between); each answer is compared with the enumeration reference and with a fresh object asked that query alone.
static void derivOrderSpace(vf::Runner& R, bool th) {
  Fam f; f.kind = "paths"; f.n = 2; f.L = th ? 3 : 2; f.k = th ? 3 : 2; f.pmax = 0; f.nTheta = 2; f.allBp = true;
  uint64_t a, b, d; uint64_t nModels = famSize(f, a, b, d); const uint64_t nSeq = 4 + 16 + 64;
  R.space("derivative-orders:n2:L" + str(f.L) + ":emis" + str(f.k) + ":theta2:queries<=3", nModels * nSeq, [=](uint64_t idx, vf::Case& c) {
    uint64_t is = idx % nSeq, im = idx / nSeq;
    std::vector<int> seq; if (is < 4) seq = {(int)is}; else if (is < 20) { is -= 4; seq = {(int)(is % 4), (int)(is / 4)}; } else { is -= 20; seq = {(int)(is % 4), (int)((is / 4) % 4), (int)(is / 16)}; }
    Model m = famModel(f, im); Model mq = m; mq.var = 1;
    Ref r[2] = {enumerate(m), enumerate(mq)};
    static const char* QN[4] = {"getFirstOrderDerivative(theta)", "getFirstOrderDerivative(phi)", "getSecondOrderDerivative(theta)", "getSecondOrderDerivative(phi)"};
    std::string sq; for (int q : seq) sq += std::string(QN[q]) + "; ";
    if (!r[0].positive) { c.tag("impossible-data(likelihood 0)"); return; }
    double L = (double)m.L, n = (double)m.n;
    auto ask = [&](HmmLikelihood& lk, int q, const std::string& cls) {
      c.site((cls + (q < 2 ? "::getFirstOrderDerivative" : "::getSecondOrderDerivative")).c_str());
      return q < 2 ? lk.getFirstOrderDerivative(q == 0 ? "theta" : "phi") : lk.getSecondOrderDerivative(q == 2 ? "theta" : "phi");
    };
    for (int k = 0; k < 2; ++k) {
      Alg alg = k == 0 ? RESC : LOGS; std::string an = ALGN[alg], cls = ALGC[alg];
      Built o = buildH(alg, m, 0, c);
      double ll = o.lk->getLogLikelihood();
      if (!(std::fabs(ll - (double)r[0].logL) <= tolLog(m, r[0]))) { c.tag("loglik-wrong(judged-in-the-paths-spaces)"); continue; }
      try {
        for (size_t step = 0; step < seq.size(); ++step) {
          int q = seq[step]; const Ref& rr = r[q % 2];
          double got = ask(*o.lk, q, cls);
          double want = q < 2 ? -(double)rr.d1 : -(double)rr.d2;
          double tol = (q < 2 ? 1024. * L * L : 1024. * L * L * L) * n * n * EPS * std::max(1., std::fabs(want));
          std::string w = describe(m) + " queries on one object: " + sq + "answer " + str(step + 1) + " = " + num(got);
          if (!(std::fabs(got - want) <= tol)) { c.fail(an + "|derivative-order|" + (q < 2 ? "first" : "second") + "-derivative-differs-from-enumeration", w + " expected " + num(want) + " tol=" + num(tol)); break; }
          Built fr = buildH(alg, m, 0, c);
          double alone = ask(*fr.lk, q, cls);
          if (!sameD(got, alone)) { c.fail(an + "|derivative-order|" + (q < 2 ? "first" : "second") + "-derivative-differs-from-fresh-object", w + " fresh object gives " + num(alone)); break; }
        }
      } catch (Exception& e) { c.fail(an + "|derivative-order|raised-exception", describe(m) + " queries: " + sq + typeid(e).name() + ": " + e.what()); }
    }
    c.tag("derivative-queries-on-two-variables"); c.nontrivial();
    if (idx % 9973 == 3) c.sample(describe(m) + " queries: " + sq);
  }, 10.0);
}

// ------------------------------------------------------------------------------------------------ E2: built-in transition models
static std::shared_ptr<FullHmmTransitionMatrix> mkFull(std::shared_ptr<HAlphabet> a, const Vd& th) {
  auto t = std::make_shared<FullHmmTransitionMatrix>(a, "");
  size_t n = a->getNumberOfStates(), k = 0;
  for (size_t i = 0; i < n; ++i) for (size_t j = 0; j + 1 < n; ++j) t->setParameterValue(str(i + 1) + ".theta" + str(j + 1), th[k++]);
  return t;
}
static std::shared_ptr<AutoCorrelationTransitionMatrix> mkAuto(std::shared_ptr<HAlphabet> a, const Vd& la) {
  auto t = std::make_shared<AutoCorrelationTransitionMatrix>(a, "");
  for (size_t i = 0; i < la.size(); ++i) t->setParameterValue("lambda" + str(i + 1), la[i]);
  return t;
}
static VVd matOf(const Matrix<double>& M) { VVd r(M.getNumberOfRows(), Vd(M.getNumberOfColumns())); for (size_t i = 0; i < r.size(); ++i) for (size_t j = 0; j < r[i].size(); ++j) r[i][j] = M(i, j); return r; }
static VVd pijOf(const HmmTransitionMatrix& t) { size_t n = t.getNumberOfStates(); VVd r(n, Vd(n)); for (size_t i = 0; i < n; ++i) for (size_t j = 0; j < n; ++j) r[i][j] = t.Pij(i, j); return r; }

// row-stochastic + genuine stationary vector; returns true when both hold. Tolerance 1e-10: three orders above the rounding of a few
// dozen matrix squarings (n*eps each), far below any non-converged or never-computed vector.
static bool judgeModelAnswers(vf::Case& c, const std::string& who, const VVd& P, const Vd& pi, const std::string& in) {
  size_t n = P.size(); bool ok = true;
  for (size_t i = 0; i < n; ++i) {
    double s = 0; for (size_t j = 0; j < n; ++j) { s += P[i][j]; if (!(P[i][j] >= 0)) { c.fail(who + "|matrix-entry-negative-or-nan", in + " P=" + vv(P)); ok = false; } }
    if (!(std::fabs(s - 1.) <= 8. * (double)n * EPS)) { c.fail(who + "|matrix-row-does-not-sum-to-one", in + " P=" + vv(P) + " row " + str(i) + " sums to " + num(s)); ok = false; }
  }
  if (!ok) return false;
  if (pi.size() != n) { c.fail(who + "|equilibrium|shape", in); return false; }
  double s = 0; for (double x : pi) { s += x; if (!(x >= 0)) ok = false; }
  if (!ok || !(std::fabs(s - 1.) <= 1e-10)) { c.fail(who + "|equilibrium|not-a-distribution", in + " P=" + vv(P) + " equilibrium=" + vf::vstr(pi) + " (sum " + num(s) + ")"); return false; }
  for (size_t j = 0; j < n; ++j) { LD x = 0; for (size_t k = 0; k < n; ++k) x += (LD)pi[k] * (LD)P[k][j]; if (!(std::fabs((double)(x - (LD)pi[j])) <= 1e-10)) { c.fail(who + "|equilibrium|not-stationary", in + " P=" + vv(P) + " equilibrium=" + vf::vstr(pi) + " but (pi.P)[" + str(j) + "]=" + num((double)x)); return false; } }
  return true;
}

template<class MK> static void builtinCase(vf::Case& c, const std::string& who, const std::string& cls, size_t n, const Vd& par, MK mk, const std::string& in) {
  auto al = std::make_shared<HAlphabet>(n);
  // three fresh objects at the same parameter values, queried in different orders
  c.site((cls + "::Pij").c_str());
  auto tc = mk(al, par); VVd PC = pijOf(*tc);
  c.site((cls + "::getEquilibriumFrequencies(first)").c_str());
  auto ta = mk(al, par); Vd eqA = ta->getEquilibriumFrequencies();
  c.site((cls + "::getPij(second)").c_str());
  VVd PA = matOf(ta->getPij());
  c.site((cls + "::getPij(first)").c_str());
  auto tb = mk(al, par); VVd PB = matOf(tb->getPij());
  c.site((cls + "::getEquilibriumFrequencies(second)").c_str());
  Vd eqB = tb->getEquilibriumFrequencies();
  if (!sameV(flat(PA), flat(PC)) || !sameV(flat(PB), flat(PC))) c.fail(who + "|getPij-differs-from-Pij", in + " Pij=" + vv(PC) + " getPij(after equilibrium)=" + vv(PA) + " getPij(first)=" + vv(PB));
  if (!sameV(eqA, eqB)) c.fail(who + "|equilibrium|depends-on-query-order", in + ": asked first " + vf::vstr(eqA) + ", asked after getPij " + vf::vstr(eqB));
  bool ok = judgeModelAnswers(c, who, PC, eqA, in);
  // parameter update on an object whose caches are filled: answers must be those of the fresh object
  {
    c.site((cls + "::setParameterValue(after queries)").c_str());
    Vd def = par; for (double& x : def) x = (x == 0.5 ? 0.25 : 0.5);
    auto td = mk(al, def); td->getEquilibriumFrequencies(); td->getPij();
    auto names = td->getParameters().getParameterNames();
    for (size_t i = 0; i < names.size(); ++i) td->setParameterValue(names[i], ta->getParameterValue(names[i]));
    Vd eqD = td->getEquilibriumFrequencies(); VVd PD = matOf(td->getPij());
    if (!sameV(flat(PD), flat(PC))) c.fail(who + "|update|getPij-stale", in + " got " + vv(PD) + " expected " + vv(PC));
    if (!sameV(eqD, eqA)) c.fail(who + "|update|equilibrium-differs-from-fresh", in + " got " + vf::vstr(eqD) + " fresh " + vf::vstr(eqA));
  }
  c.tag(ok ? who + ":model-answers-ok" : who + ":model-answers-bad");
  if (!ok) return;
  // likelihoods with the built-in model: matrix and equilibrium as reported (now known to be consistent)
  VVd E = emisSet(n, n == 2 ? 3 : 2); size_t L = 3;
  for (uint64_t s = 0; s < ipow(E.size(), L); ++s) for (uint64_t ib = 0; ib < 4; ++ib) {
    Model m; m.n = n; m.L = L; m.P = PC; m.pi = eqA; m.theta = 1.0; uint64_t x = s; m.base.resize(L);
    for (size_t i = 0; i < L; ++i) { m.base[i] = E[x % E.size()]; x /= E.size(); }
    for (size_t b = 1; b < L; ++b) if (ib & (1ull << (b - 1))) m.bp.push_back(b);
    Ref r = enumerate(m);
    for (int k = 0; k < 3; ++k) {
      Alg alg = (Alg)k; Built b; b.a = std::make_shared<HAlphabet>(n); b.t = mk(b.a, par); b.e = std::make_shared<HEmis>(b.a, m.base, m.theta);
      b.lk = mkLik(alg, b, 2, c);
      if (!m.bp.empty()) { c.site((std::string(ALGC[alg]) + "::setBreakPoints").c_str()); b.lk->setBreakPoints(m.bp); }
      c.site((std::string(ALGC[alg]) + "::getLogLikelihood").c_str());
      bool lok = judgeLog(c, std::string(ALGN[alg]) + "+" + who, b.lk->getLogLikelihood(), m, r, " [" + in + "]");
      if (lok && alg != LOWM && s % 5 == 0) judgeQueries(c, alg, *b.lk, m, r, true);
    }
  }
  if (n >= 2) c.nontrivial();
}

static void builtinSpaces(vf::Runner& R, bool th) {
  // FullHmmTransitionMatrix: one Simplex per row, parameters i.theta_j in ]0,1[ (stick breaking); 0.99 / 0.01 give a slowly mixing chain
  for (size_t n = 1; n <= (th ? 4u : 3u); ++n) {
    Vd vals = n <= 2 ? Vd{0.5, 0.25, 0.9, 0.99, 0.01} : (n == 3 ? (th ? Vd{0.5, 0.25, 0.9, 0.01} : Vd{0.5, 0.25, 0.9}) : Vd{0.5, 0.9});
    size_t np = n * (n - 1); uint64_t size = ipow(vals.size(), np);
    R.space("builtin:full:n" + str(n) + ":values" + str(vals.size()), size, [=](uint64_t idx, vf::Case& c) {
      Vd par(np); uint64_t x = idx; for (size_t i = 0; i < np; ++i) { par[i] = vals[x % vals.size()]; x /= vals.size(); }
      std::string in = "FullHmmTransitionMatrix n=" + str(n) + " thetas(row-major)=" + vf::vstr(par);
      builtinCase(c, "full", "FullHmmTransitionMatrix", n, par, mkFull, in);
      if (idx % 211 == 5) c.sample(in);
    }, 20.0);
  }
  for (size_t n = 1; n <= (th ? 4u : 3u); ++n) {
    Vd vals = {0.95, 0.5, 0.9, 0.1};
    uint64_t size = ipow(vals.size(), n);
    R.space("builtin:autocorr:n" + str(n) + ":values4", size, [=](uint64_t idx, vf::Case& c) {
      Vd par(n); uint64_t x = idx; for (size_t i = 0; i < n; ++i) { par[i] = vals[x % vals.size()]; x /= vals.size(); }
      std::string in = "AutoCorrelationTransitionMatrix n=" + str(n) + " lambdas=" + vf::vstr(par);
      builtinCase(c, "autocorr", "AutoCorrelationTransitionMatrix", n, par, mkAuto, in);
      if (idx % 61 == 5) c.sample(in);
    }, 20.0);
  }
}

// ------------------------------------------------------------------------------------------------ E1: histories on one likelihood object
enum Mod { HFIX = 0, FULL = 1, AUTO = 2 };
static const char* MODN[] = {"fixed", "full", "autocorr"};
static void dd(std::string& s, double x) { char b[48]; snprintf(b, sizeof b, "%a,", x); s += std::isnan(x) ? "nan," : b; }
static void dv(std::string& s, const Vd& v) { s += "["; for (double x : v) dd(s, x); s += "]"; }
static void dvv(std::string& s, const VVd& v) { s += "{"; for (auto& x : v) dv(s, x); s += "}"; }
static std::string canonTrans(const HmmTransitionMatrix& t) {
  std::string s;
  if (auto* f = dynamic_cast<const FullHmmTransitionMatrix*>(&t)) {
    s += "full up=" + str(f->upToDate_) + " pij="; dvv(s, matOf(f->pij_)); s += " eq="; dv(s, f->eqFreq_); s += " simplex=";
    for (auto& sx : f->vSimplex_) dv(s, sx.vProb_);
    s += " par="; for (auto& nm : f->getParameters().getParameterNames()) dd(s, f->getParameterValue(nm));
  } else if (auto* a = dynamic_cast<const AutoCorrelationTransitionMatrix*>(&t)) {
    s += "auto up=" + str(a->upToDate_) + " pij="; dvv(s, matOf(a->pij_)); s += " eq="; dv(s, a->eqFreq_); s += " lambda="; dv(s, a->vAutocorrel_);
    s += " par="; for (auto& nm : a->getParameters().getParameterNames()) dd(s, a->getParameterValue(nm));
  } else s += "fixed";
  return s;
}
static std::string canonLik(const HmmLikelihood& l) {
  std::string s; auto bps = [&](const std::vector<size_t>& b) { s += " bp="; for (size_t x : b) s += str(x) + ","; };
  if (auto* r = dynamic_cast<const RescaledHmmLikelihood*>(&l)) {
    s += "R lik="; dv(s, r->likelihood_); s += " dlik="; dvv(s, r->dLikelihood_); s += " d2lik="; dvv(s, r->d2Likelihood_); s += " back="; dvv(s, r->backLikelihood_);
    s += " backUp=" + str(r->backLikelihoodUpToDate_) + " sc="; dv(s, r->scales_); s += " dsc="; dv(s, r->dScales_); s += " d2sc="; dv(s, r->d2Scales_); s += " ll="; dd(s, r->logLik_); bps(r->breakPoints_);
    s += " dvar=" + r->dVariable_ + " d="; dd(s, r->dLogLik_); s += " d2var=" + r->d2Variable_ + " d2="; dd(s, r->d2LogLik_);
  } else if (auto* g = dynamic_cast<const LogsumHmmLikelihood*>(&l)) {
    s += "G ll="; dv(s, g->logLikelihood_); s += " part="; dv(s, g->partialLogLikelihoods_); dd(s, g->logLik_); s += " dll="; dvv(s, g->dLogLikelihood_); s += " pd="; dv(s, g->partialDLogLikelihoods_);
    s += " d2ll="; dvv(s, g->d2LogLikelihood_); s += " pd2="; dv(s, g->partialD2LogLikelihoods_); s += " back="; dvv(s, g->backLogLikelihood_); s += " backUp=" + str(g->backLogLikelihoodUpToDate_); bps(g->breakPoints_);
    s += " dvar=" + g->dVariable_ + " d="; dd(s, g->dLogLik_); s += " d2var=" + g->d2Variable_ + " d2="; dd(s, g->d2LogLik_);
  } else if (auto* m = dynamic_cast<const LowMemoryRescaledHmmLikelihood*>(&l)) {
    s += "M l1="; dv(s, m->likelihood1_); s += " l2="; dv(s, m->likelihood2_); s += " ll="; dd(s, m->logLik_); bps(m->breakPoints_);
  }
  s += " par="; for (auto& nm : l.getParameters().getParameterNames()) { s += nm + "="; dd(s, l.getParameterValue(nm)); }
  return s;
}

struct E1Cfg {
  Alg alg; Mod mod;
  static VVd base() { return {{0.5, 1e-3}, {1e-3, 0.5}, {1, 0.5}}; }
  static VVd fixedP() { return {{0.9, 0.1}, {0.5, 0.5}}; }
  static double thetaV(int i) { return i ? 1.5 : 1.0; }
  double taV(int i) const { return mod == FULL ? (i ? 0.9 : 0.5) : (i ? 0.5 : 0.95); }
  double tbV(int i) const { return mod == FULL ? (i ? 0.25 : 0.5) : (i ? 0.9 : 0.95); }
  std::string taN() const { return mod == FULL ? "1.theta1" : "lambda1"; }
  std::string tbN() const { return mod == FULL ? "2.theta1" : "lambda2"; }
  static std::vector<size_t> bpV(int i) { std::vector<size_t> b; if (i & 1) b.push_back(1); if (i & 2) b.push_back(2); return b; }
};

struct LikSys : vf::SysBase {
  E1Cfg cfg; int th = 0, ta = 0, tb = 0, bpi = 0, ph = 0;
  Built obj; std::vector<std::vector<int>> visited;   // configurations (theta, transition a, transition b, break points) held earlier in this history
  static const int NOPS = 22;
  static double phiV(int i) { return i ? 0.5 : 1.0; }
  Built fresh(vf::Case& c) const { return freshAt(c, th, ta, tb, bpi, ph); }
  Built freshAt(vf::Case& c, int th, int ta, int tb, int bpi, int ph) const {
    Built b; b.a = std::make_shared<HAlphabet>(2);
    if (cfg.mod == HFIX) b.t = std::make_shared<HTrans>(b.a, E1Cfg::fixedP(), stationary(E1Cfg::fixedP()));
    else if (cfg.mod == FULL) b.t = mkFull(b.a, Vd{cfg.taV(ta), cfg.tbV(tb)});
    else b.t = mkAuto(b.a, Vd{cfg.taV(ta), cfg.tbV(tb)});
    b.e = std::make_shared<HEmis>(b.a, E1Cfg::base(), E1Cfg::thetaV(th), phiV(ph));
    b.lk = mkLik(cfg.alg, b, 2, c);
    if (bpi) b.lk->setBreakPoints(E1Cfg::bpV(bpi));
    return b;
  }
  LikSys(Alg a, Mod m) { cfg.alg = a; cfg.mod = m; vf::Out o; vf::Case c; c.out = &o; c.muted = true; obj = fresh(c); visited.push_back({0, 0, 0, 0, 0}); }
  std::string opname(int op) const {
    switch (op) {
      case 0: return "setParameterValue(theta,1.5)"; case 1: return "setParameterValue(theta,1)";
      case 2: return "setParameterValue(" + cfg.taN() + "," + num(cfg.taV(1)) + ")"; case 3: return "setParameterValue(" + cfg.taN() + "," + num(cfg.taV(0)) + ")";
      case 4: return "setParameterValue(" + cfg.tbN() + "," + num(cfg.tbV(1)) + ")"; case 5: return "setParameterValue(" + cfg.tbN() + "," + num(cfg.tbV(0)) + ")";
      case 6: return "setBreakPoints({})"; case 7: return "setBreakPoints({1})"; case 8: return "setBreakPoints({2})"; case 9: return "setBreakPoints({1,2})";
      case 10: return "getLogLikelihood"; case 11: return "getHiddenStatesPosteriorProbabilities"; case 12: return "getHiddenStatesPosteriorProbabilitiesForASite(1)";
      case 13: return "getLikelihoodForEachSite+ForASite(0)"; case 14: return "getFirstOrderDerivative(theta)"; case 15: return "getSecondOrderDerivative(theta)";
      case 16: return "hmmTransitionMatrix().getPij"; case 17: return "hmmTransitionMatrix().getEquilibriumFrequencies";
      case 18: return "getFirstOrderDerivative(phi)"; case 19: return "getSecondOrderDerivative(phi)";
      case 20: return "setParameterValue(phi,0.5)"; default: return "setParameterValue(phi,1)";
    }
  }
  bool enabled(int op) {
    if (cfg.mod == HFIX && op >= 2 && op <= 5) return false;
    if (cfg.alg == LOWM && ((op >= 11 && op <= 15) || op == 18 || op == 19)) return false;   // documented: the low-memory class refuses these queries
    return true;
  }
  std::string canon() const { return "th" + str(th) + " ph" + str(ph) + " ta" + str(ta) + " tb" + str(tb) + " bp" + str(bpi) + " | " + canonLik(*obj.lk) + " | " + canonTrans(*obj.t) + " | emis d1="
    + [&] { std::string s; dvv(s, obj.e->d1_); s += " d2="; dvv(s, obj.e->d2_); return s; }(); }
  // the query part of an operation, on any object (the explored one or a fresh one). For the fresh object the second derivative is
  // asked after the first one (the order in which the second-derivative recursion has its inputs).
  static Vd query(int op, Built& b, bool isFresh, vf::Case& c, const std::string& cls) {
    switch (op) {
      case 10: c.site((cls + "::getLogLikelihood").c_str()); return Vd{b.lk->getLogLikelihood(), b.lk->getValue()};
      case 11: { c.site((cls + "::getHiddenStatesPosteriorProbabilities").c_str()); VVd pp; b.lk->getHiddenStatesPosteriorProbabilities(pp, false); return flat(pp); }
      case 12: c.site((cls + "::getHiddenStatesPosteriorProbabilitiesForASite").c_str()); return b.lk->getHiddenStatesPosteriorProbabilitiesForASite(1);
      case 13: { c.site((cls + "::getLikelihoodForEachSite").c_str()); Vd v = b.lk->getLikelihoodForEachSite(); v.push_back(b.lk->getLikelihoodForASite(0)); return v; }
      case 14: c.site((cls + "::getFirstOrderDerivative").c_str()); return Vd{b.lk->getFirstOrderDerivative("theta")};
      case 15: if (isFresh) b.lk->getFirstOrderDerivative("theta"); c.site((cls + "::getSecondOrderDerivative").c_str()); return Vd{b.lk->getSecondOrderDerivative("theta")};
      case 16: c.site("HmmTransitionMatrix::getPij"); return flat(matOf(b.lk->hmmTransitionMatrix().getPij()));
      case 17: c.site("HmmTransitionMatrix::getEquilibriumFrequencies"); return b.lk->hmmTransitionMatrix().getEquilibriumFrequencies();
      case 18: c.site((cls + "::getFirstOrderDerivative").c_str()); return Vd{b.lk->getFirstOrderDerivative("phi")};
      default: if (isFresh) b.lk->getFirstOrderDerivative("phi"); c.site((cls + "::getSecondOrderDerivative").c_str()); return Vd{b.lk->getSecondOrderDerivative("phi")};
    }
  }
  void apply(int op, vf::Case& c) {
    std::string cls = ALGC[cfg.alg], alg = ALGN[cfg.alg];
    std::string before = c.muted ? std::string() : canon();
    Vd ans; bool isQuery = op >= 10 && op <= 19;
    if (op >= 20) { ph = op == 20; c.site((cls + "::setParameterValue(phi)").c_str()); obj.lk->setParameterValue("phi", phiV(ph)); }
    else if (op <= 1) { th = op == 0; c.site((cls + "::setParameterValue(theta)").c_str()); obj.lk->setParameterValue("theta", E1Cfg::thetaV(th)); }
    else if (op <= 3) { ta = op == 2; c.site((cls + "::setParameterValue(transition)").c_str()); obj.lk->setParameterValue(cfg.taN(), cfg.taV(ta)); }
    else if (op <= 5) { tb = op == 4; c.site((cls + "::setParameterValue(transition)").c_str()); obj.lk->setParameterValue(cfg.tbN(), cfg.tbV(tb)); }
    else if (op <= 9) { bpi = op - 6; c.site((cls + "::setBreakPoints").c_str()); obj.lk->setBreakPoints(E1Cfg::bpV(bpi)); }
    else ans = query(op, obj, false, c, cls);
    if (!isQuery) visited.push_back({th, ta, tb, bpi, ph});
    if (c.muted) return;
    std::string ctx = std::string(alg) + " with " + MODN[cfg.mod] + " transition model, n=2 L=3, after " + opname(op) + " at theta=" + num(E1Cfg::thetaV(th)) + " phi=" + num(phiV(ph))
      + (cfg.mod != HFIX ? " " + cfg.taN() + "=" + num(cfg.taV(ta)) + " " + cfg.tbN() + "=" + num(cfg.tbV(tb)) : std::string()) + " breakPoints=" + opname(6 + bpi).substr(15);
    vf::Out fo; vf::Case fc; fc.out = &fo; fc.slot = c.slot; fc.space = c.space; fc.muted = true;
    Built fr = fresh(fc);
    // the value is a pure getter: compared after every operation
    c.site((cls + "::getLogLikelihood").c_str());
    double got = obj.lk->getLogLikelihood(), want = fr.lk->getLogLikelihood();
    if (!sameD(got, want)) c.fail("history|" + alg + "|loglik-differs-from-fresh-object", ctx + ": " + num(got) + " vs fresh " + num(want));
    if (isQuery) {
      Vd fa = query(op, fr, true, fc, cls);
      if (!sameV(ans, fa)) {
        // outcome class: is this the answer that was right for a configuration the object held earlier in this history?
        std::string k = "differs";
        for (size_t v = 0; v < visited.size() && k == "differs"; ++v) {
          const std::vector<int>& q = visited[v]; if (q == std::vector<int>{th, ta, tb, bpi, ph}) continue;
          Built old = freshAt(fc, q[0], q[1], q[2], q[3], q[4]); if (sameV(query(op, old, true, fc, cls), ans)) k = "stale(answer-of-an-earlier-configuration)";
        }
        static const char* Q[] = {"loglik", "posteriors", "posterior-for-a-site", "site-likelihoods", "first-derivative", "second-derivative", "getPij", "equilibrium", "first-derivative", "second-derivative"};
        c.fail("history|" + alg + "|" + Q[op - 10] + "|" + k, ctx + ": got " + vf::vstr(ans) + " fresh object gives " + vf::vstr(fa));
      }
    }
    if (canon() != before) c.nontrivial();
    c.tag(opname(op).substr(0, opname(op).find('(')));
  }
};

// ------------------------------------------------------------------------------------------------ E1: histories on a built-in transition model alone
struct ModSys : vf::SysBase {
  Mod mod; std::shared_ptr<HAlphabet> al; std::shared_ptr<HmmTransitionMatrix> t;
  double pa, pb;                  // the parameter values the object should hold now (row 1 / row 2)
  E1Cfg cfg;
  static VVd setM(int k) { return k == 0 ? VVd{{0.75, 0.25}, {0.4, 0.6}} : VVd{{0.5, 0.5}, {0.5, 0.5}}; }
  ModSys(Mod m) : mod(m), al(std::make_shared<HAlphabet>(2)) {
    cfg.mod = m; cfg.alg = RESC; pa = cfg.taV(0); pb = cfg.tbV(0);
    if (m == FULL) t = std::make_shared<FullHmmTransitionMatrix>(al, ""); else t = std::make_shared<AutoCorrelationTransitionMatrix>(al, "");
  }
  int nops() const { return mod == FULL ? 9 : 7; }
  std::string opname(int op) const {
    switch (op) {
      case 0: return "setParameterValue(" + cfg.taN() + "," + num(cfg.taV(1)) + ")"; case 1: return "setParameterValue(" + cfg.taN() + "," + num(cfg.taV(0)) + ")";
      case 2: return "setParameterValue(" + cfg.tbN() + "," + num(cfg.tbV(1)) + ")"; case 3: return "setParameterValue(" + cfg.tbN() + "," + num(cfg.tbV(0)) + ")";
      case 4: return "getPij"; case 5: return "getEquilibriumFrequencies"; case 6: return "Pij(i,j) for all i,j";
      case 7: return "setTransitionProbabilities([[0.75,0.25],[0.4,0.6]])"; default: return "setTransitionProbabilities([[0.5,0.5],[0.5,0.5]])";
    }
  }
  std::string canon() const { return canonTrans(*t) + " want=" + num(pa) + "," + num(pb); }
  void apply(int op, vf::Case& c) {
    std::string who = std::string("model-") + MODN[mod], cls = mod == FULL ? "FullHmmTransitionMatrix" : "AutoCorrelationTransitionMatrix";
    std::string before = c.muted ? std::string() : canon();
    Vd ans;
    switch (op) {
      case 0: case 1: pa = cfg.taV(op == 0); c.site((cls + "::setParameterValue").c_str()); t->setParameterValue(cfg.taN(), pa); break;
      case 2: case 3: pb = cfg.tbV(op == 2); c.site((cls + "::setParameterValue").c_str()); t->setParameterValue(cfg.tbN(), pb); break;
      case 4: c.site((cls + "::getPij").c_str()); ans = flat(matOf(t->getPij())); break;
      case 5: c.site((cls + "::getEquilibriumFrequencies").c_str()); ans = t->getEquilibriumFrequencies(); break;
      case 6: c.site((cls + "::Pij").c_str()); ans = flat(pijOf(*t)); break;
      default: {
        VVd M = setM(op - 7); RowMatrix<double> rm(2, 2); for (size_t i = 0; i < 2; ++i) for (size_t j = 0; j < 2; ++j) rm(i, j) = M[i][j];
        pa = M[0][0]; pb = M[1][0];
        c.site("FullHmmTransitionMatrix::setTransitionProbabilities"); dynamic_cast<FullHmmTransitionMatrix&>(*t).setTransitionProbabilities(rm);
      }
    }
    if (c.muted) return;
    std::string ctx = cls + " n=2 after " + opname(op) + ", parameters should be " + cfg.taN() + "=" + num(pa) + " " + cfg.tbN() + "=" + num(pb);
    // the parameters the object reports are the ones it was given (setTransitionProbabilities goes through a division: 4 eps)
    c.site((cls + "::getParameterValue").c_str());
    double ra = t->getParameterValue(cfg.taN()), rb = t->getParameterValue(cfg.tbN());
    if (!(std::fabs(ra - pa) <= 4 * EPS) || !(std::fabs(rb - pb) <= 4 * EPS)) c.fail(who + "|reported-parameters-differ-from-those-set", ctx + ": reports " + num(ra) + ", " + num(rb));
    // fresh object at these parameter values, equilibrium asked first
    std::shared_ptr<HmmTransitionMatrix> fr; if (mod == FULL) fr = mkFull(al, Vd{pa, pb}); else fr = mkAuto(al, Vd{pa, pb});
    Vd fa;
    if (op == 4) fa = flat(matOf(fr->getPij())); else if (op == 5) fa = fr->getEquilibriumFrequencies(); else if (op == 6) fa = flat(pijOf(*fr));
    if (op >= 4 && op <= 6) {
      bool same = ans.size() == fa.size(); for (size_t i = 0; same && i < ans.size(); ++i) same = std::fabs(ans[i] - fa[i]) <= 4 * EPS;
      static const char* Q[] = {"getPij", "equilibrium", "Pij"};
      if (!same) c.fail(who + "|" + Q[op - 4] + "-differs-from-fresh-object", ctx + ": got " + vf::vstr(ans) + " fresh " + vf::vstr(fa));
    }
    // Pij(i,j) is a pure getter: judged after every operation
    c.site((cls + "::Pij").c_str());
    VVd P = pijOf(*t), PF = pijOf(*fr); bool same = true; for (size_t i = 0; i < 2; ++i) for (size_t j = 0; j < 2; ++j) if (!(std::fabs(P[i][j] - PF[i][j]) <= 4 * EPS)) same = false;
    if (!same) c.fail(who + "|Pij-differs-from-fresh-object", ctx + ": " + vv(P) + " vs " + vv(PF));
    if (canon() != before) c.nontrivial();
    c.tag(opname(op).substr(0, opname(op).find('(')));
  }
};

// ------------------------------------------------------------------------------------------------ main
int main(int argc, char** argv) {
  vfh::silence();
  vf::Runner R(argc, argv, "C13");
  bool th = R.thorough();

  std::vector<Fam> fams;
  auto add = [&](const char* kind, size_t n, size_t L, size_t k, size_t pmax, int nTheta, bool allBp) { Fam f; f.kind = kind; f.n = n; f.L = L; f.k = k; f.pmax = pmax; f.nTheta = nTheta; f.allBp = allBp; fams.push_back(f); };
  // free emission sequences, every break-point subset
  for (size_t L = 1; L <= (th ? 5u : 4u); ++L) add("paths", 1, L, 4, 0, L <= 2 ? 2 : 1, true);
  add("paths", 2, 1, 0, 0, 2, true); add("paths", 2, 2, 0, 0, 2, true);
  add("paths", 2, 3, 6, 0, 1, true); add("paths", 2, 4, 4, 0, 1, true); add("paths", 2, 5, 3, 0, 1, true);
  add("paths", 3, 1, 5, 0, 2, true); add("paths", 3, 2, 5, 0, 1, true); add("paths", 3, 3, 3, 0, 1, true);
  if (th) {
    add("paths", 2, 4, 6, 0, 1, true); add("paths", 2, 6, 2, 0, 1, true);
    add("paths", 3, 3, 4, 0, 1, true); add("paths", 3, 4, 2, 0, 1, true);
    add("paths", 4, 1, 4, 0, 2, true); add("paths", 4, 2, 3, 0, 1, true); add("paths", 4, 3, 2, 0, 1, true);
  }
  // periodic emission blocks, every break-point subset, still path enumeration
  add("periodic", 2, th ? 10 : 7, th ? 3 : 6, 2, 1, true);
  if (th) { add("periodic", 2, 8, 2, 3, 1, true); add("periodic", 2, 12, 2, 1, 1, true); add("periodic", 3, 6, 2, 2, 1, true); }
  // long sequences: long-double forward reference, structured break points, 7 chunk sizes
  add("long", 2, 64, 6, th ? 3 : 2, 1, false); add("long", 2, 1000, th ? 6 : 3, 2, 1, false);
  if (th) { add("long", 2, 5000, 2, 2, 1, false); add("long", 3, 200, 2, 2, 1, false); add("long", 4, 64, 2, 1, 1, false); }
  // chunk size 1 of the low-memory algorithm (kept in small spaces of its own: every case of length >= 2 aborts on the unchanged tree)
  add("chunk1", 1, 3, 2, 0, 1, true); add("chunk1", 2, 2, 2, 0, 1, true); add("chunk1", 2, 3, 2, 0, 1, true);
  if (th) { add("chunk1", 2, 4, 2, 0, 1, true); add("chunk1", 3, 2, 2, 0, 1, true); }
  // order of execution: the small spaces first (chunk size 1, built-in models, histories), so that a global deadline on a busy
  // machine cuts into the largest enumerations only
  auto small = [](const Fam& f) { uint64_t a, b, c; return f.kind == "chunk1" || famSize(f, a, b, c) <= 5000; };
  for (auto& f : fams) if (small(f)) famSpace(R, f);
  derivOrderSpace(R, th);
  builtinSpaces(R, th);

  // the three algorithms built on the SAME alphabet / transition / emission objects (components shared between likelihood objects): one
  // parameter is given a new value through each likelihood object in turn, in every order; after each step the objects that have received
  // the value answer like a fresh object at the current parameter values, whatever their components had already been told by another owner
  {
    static const int ORD[6][3] = {{0, 1, 2}, {0, 2, 1}, {1, 0, 2}, {1, 2, 0}, {2, 0, 1}, {2, 1, 0}};
    R.space("shared-components:models{fixed,full,autocorr}:parameter{theta,phi,transition-a,transition-b}:update-order6", 3 * 4 * 6, [=](uint64_t idx, vf::Case& c) {
      std::vector<int> d = vf::digits(idx, {6, 4, 3}); int ord = d[0], par = d[1]; E1Cfg cfg; cfg.mod = (Mod)d[2]; cfg.alg = RESC;
      if (cfg.mod == HFIX && par >= 2) { c.tag("shared: fixed transition model has no transition parameter (skipped)"); return; }
      auto mk = [&](double thv, double phv, double tav, double tbv, Built& b) {
        b.a = std::make_shared<HAlphabet>(2);
        if (cfg.mod == HFIX) b.t = std::make_shared<HTrans>(b.a, E1Cfg::fixedP(), stationary(E1Cfg::fixedP()));
        else if (cfg.mod == FULL) b.t = mkFull(b.a, Vd{tav, tbv}); else b.t = mkAuto(b.a, Vd{tav, tbv});
        b.e = std::make_shared<HEmis>(b.a, E1Cfg::base(), thv, phv); };
      Built sh; mk(E1Cfg::thetaV(0), 1.0, cfg.taV(0), cfg.tbV(0), sh);
      std::unique_ptr<HmmLikelihood> L[3]; for (int a = 0; a < 3; ++a) L[a] = mkLik((Alg)a, sh, 2, c);
      std::string name = par == 0 ? "theta" : par == 1 ? "phi" : par == 2 ? cfg.taN() : cfg.tbN();
      double nv = par == 0 ? E1Cfg::thetaV(1) : par == 1 ? 0.5 : par == 2 ? cfg.taV(1) : cfg.tbV(1);
      // reference: fresh objects (own components) at the new values
      Built fr; mk(par == 0 ? nv : E1Cfg::thetaV(0), par == 1 ? nv : 1.0, par == 2 ? nv : cfg.taV(0), par == 3 ? nv : cfg.tbV(0), fr);
      double want[3]; for (int a = 0; a < 3; ++a) { vf::Out o2; vf::Case c2 = c; c2.out = &o2; c2.muted = true; auto f = mkLik((Alg)a, fr, 2, c2); want[a] = f->getLogLikelihood(); }
      c.nontrivial();
      for (int k = 0; k < 3; ++k) {
        int a = ORD[ord][k];
        c.site((std::string(ALGC[a]) + "::setParameterValue(shared components)").c_str());
        L[a]->setParameterValue(name, nv);
        for (int j = 0; j <= k; ++j) { int b = ORD[ord][j];
          c.site((std::string(ALGC[b]) + "::getLogLikelihood").c_str());
          double got = L[b]->getLogLikelihood();
          if (!(std::fabs(got - want[b]) <= 1e-12 * std::max(1.0, std::fabs(want[b]))))
            c.fail(std::string("shared|") + ALGN[b] + "|loglik-differs-from-fresh-object-after-the-value-reached-it", std::string(ALGN[b]) + " with " + MODN[cfg.mod] + " transition model on components shared with the two other algorithms: " + name + " := " + num(nv) + " given to the objects in the order " + ALGN[ORD[ord][0]] + ", " + ALGN[ORD[ord][1]] + ", " + ALGN[ORD[ord][2]] + "; after step " + str(k + 1) + " it answers " + num(got) + ", a fresh object " + num(want[b]));
        }
      }
      c.tag("shared-components:checked");
    }, 10.0);
  }

  int depth = th ? 5 : 4;
  for (int a = 0; a < 3; ++a) for (int m = 0; m < 3; ++m) {
    Alg alg = (Alg)a; Mod mod = (Mod)m;
    R.explore(std::string("history:") + ALGN[a] + ":" + MODN[m] + ":n2:L3:d" + str(depth), depth, LikSys::NOPS, [alg, mod] { return std::unique_ptr<LikSys>(new LikSys(alg, mod)); }, 10.0);
  }
  for (int m = 1; m < 3; ++m) {
    Mod mod = (Mod)m; ModSys proto(mod);
    R.explore(std::string("history:model-") + MODN[m] + ":n2", 64, proto.nops(), [mod] { return std::unique_ptr<ModSys>(new ModSys(mod)); }, 10.0);
  }

  for (auto& f : fams) if (!small(f)) famSpace(R, f);

  R.expectSeen("zero-transition-entry"); R.expectSeen("zero-emission-entry"); R.expectSeen("emission-1e-200"); R.expectSeen("with-break-points"); R.expectSeen("possible-data"); R.expectSeen("reference-derivatives-cross-checked-by-finite-differences"); R.expectSeen("derivative-queries-on-two-variables");
  R.note("segments start from pi.P as the code does (pi supplied by the harness is stationary, so pi.P = pi up to rounding); break points are ascending indices in 1..L-1 naming the first site of a new segment");
  R.note("data of probability 0 (all paths impossible) are recorded as an outcome class; only a finite answer is judged wrong there, posteriors and derivatives are not judged");
  R.note("posteriors, per-site likelihoods, derivatives and re-query answers of an object are judged only when its log-likelihood is right (they are downstream of the same forward pass)");
  R.note("the emission table has two parameters, e = base * g(theta) * h(phi); derivative queries are made for both, in every order of up to three queries on one object (E2) and interleaved with updates (E1)");
  R.note("derivative reference: exact second-order jets of the enumerated likelihood (sharper than finite differences of the enumerated log-likelihood, with which they agree)");
  R.note("a wrong log-likelihood on data whose per-site rescaled forward quantities fall below 1e-290 (not representable next to a normalised scale in double) is reported under its own signature class, so that this input class cannot share a signature with any other wrong value");
  R.note("LowMemoryRescaledHmmLikelihood documents that it has no posteriors/derivatives (NotImplementedException): only its log-likelihood is judged");
  R.note("per-site likelihood = sum_j posterior(site,j) * emission(site,j), the definition both implementing classes use");
  return R.finish();
}
